"""Symbolic strings: concrete length, each character either a concrete 1-char
str or a z3 Int code point ranging over all of Unicode (surrogates excluded).

SStr is a subclass of str so isinstance checks in the code under test pass;
every str method that is not modelled raises Unsupported (fail closed)."""
import unicodedata

import z3

from . import engine as E
from .engine import Unsupported
from .shadows import SBool, SInt, mkbool, mkint, is_z3


def _ranges(pred):
    out = []
    start = None
    for cp in range(0x110000):
        if pred(chr(cp)):
            if start is None:
                start = cp
        elif start is not None:
            out.append((start, cp - 1))
            start = None
    if start is not None:
        out.append((start, 0x10FFFF))
    return out


_R = {}


def ranges(name):
    """code point ranges of str.<name> computed from CPython's own tables"""
    if name not in _R:
        _R[name] = _ranges(getattr(str, name))
    return _R[name]


def in_ranges(z, rs):
    return z3.Or([z3.And(z >= a, z <= b) if a != b else z == a for a, b in rs])


_CLS_FLAGS = {}  # (char term id, class name) -> Bool constant defined once per path by an assumption


def char_in_class(c, name):
    """logic value 'symbolic character c is in str.<name>': a Bool constant whose definition
    (membership in CPython's code point ranges) is assumed once where the character is created"""
    key = (str(c), name)
    rec = _CLS_FLAGS.get(key)
    if rec is None:
        b = z3.Bool("%s!%s" % (name, c))
        rec = (b, b == in_ranges(c, ranges(name)), c)
        _CLS_FLAGS[key] = rec
    if key not in E.ENG.declared:
        E.ENG.declared[key] = True
        E.ENG.assume(rec[1])
    return rec[0]


def truth(c):
    if isinstance(c, bool):
        return c
    return E.ENG.branch(c)


def ceq(a, b):
    """logic value: character a == character b"""
    if isinstance(a, str) and isinstance(b, str):
        return a == b
    za = ord(a) if isinstance(a, str) else a
    zb = ord(b) if isinstance(b, str) else b
    return za == zb


def _and(xs):
    out = []
    for x in xs:
        if x is True:
            continue
        if x is False:
            return False
        out.append(x)
    if not out:
        return True
    return z3.And(out) if len(out) > 1 else out[0]


def mk(chars):
    chars = list(chars)
    if all(isinstance(c, str) for c in chars):
        return "".join(chars)
    return SStr(chars)


def chars_of(x):
    if isinstance(x, SStr):
        return list(x.chars)
    if isinstance(x, SIsoStr):
        raise Unsupported("character access to a symbolic ISO timestamp string")
    if isinstance(x, str):
        return list(x)
    raise TypeError("not a str: %r" % type(x))


CANDIDATES = set()  # concrete strings a symbolic string may be looked up against in dicts
HASH_OTHER = 0x51D0


def register_candidates(names):
    for n in names:
        if isinstance(n, str) and not isinstance(n, SStr):
            CANDIDATES.add(n)


def fresh_char(x, name, allow=None):
    """a symbolic character (z3 Int code point) declared as harness input ``name``"""
    if not x.sym:
        return chr(x.values[name])
    c = x.zint(name, 0, 0x10FFFF)
    E.ENG.assume(z3.Or(c < 0xD800, c > 0xDFFF))
    return c


class SStr(str):
    def __new__(cls, chars):
        o = str.__new__(cls, "\x00<symbolic>\x00")
        o.chars = list(chars)
        return o

    # ------------------------------------------------------------ structure
    def __len__(self):
        return len(self.chars)

    def __iter__(self):
        for c in self.chars:
            yield c if type(c) is str else SStr([c])

    def __getitem__(self, i):
        if isinstance(i, slice):
            return mk(self.chars[i])
        if isinstance(i, SInt):
            raise Unsupported("symbolic index into symbolic string")
        c = self.chars[i]
        return c if type(c) is str else SStr([c])

    def __add__(self, o):
        if not isinstance(o, str):
            return NotImplemented
        return mk(self.chars + chars_of(o))

    def __radd__(self, o):
        if not isinstance(o, str):
            return NotImplemented
        return mk(chars_of(o) + self.chars)

    def __mul__(self, n):
        if isinstance(n, int):
            return mk(self.chars * n)
        raise Unsupported("str * %r" % type(n))

    __rmul__ = __mul__

    def __mod__(self, o):
        raise Unsupported("%-formatting of symbolic string")

    # ----------------------------------------------------------- comparison
    def _eqz(self, o):
        oc = chars_of(o)
        if len(oc) != len(self.chars):
            return False
        return _and([ceq(a, b) for a, b in zip(self.chars, oc)])

    def __eq__(self, o):
        if not isinstance(o, str):
            return False
        return mkbool(self._eqz(o))

    def __ne__(self, o):
        if not isinstance(o, str):
            return True
        c = self._eqz(o)
        return (not c) if isinstance(c, bool) else mkbool(z3.Not(c))

    def __lt__(self, o):
        raise Unsupported("ordering of symbolic strings")

    __le__ = __gt__ = __ge__ = __lt__

    def __hash__(self):
        for cand in sorted(CANDIDATES):
            if len(cand) == len(self.chars):
                if truth(self._eqz(cand)):
                    return hash(cand)
        return HASH_OTHER

    def __contains__(self, sub):
        return self.find(sub) != -1

    def __bool__(self):
        return len(self.chars) > 0

    # ------------------------------------------------------- classification
    def _cls(self, name):
        if not self.chars:
            return False
        rs = ranges(name)
        res = []
        for c in self.chars:
            if isinstance(c, str):
                res.append(getattr(c, name)())
            else:
                res.append(char_in_class(c, name))
        return mkbool(_and(res))

    def isdigit(self):
        return self._cls("isdigit")

    def isalpha(self):
        return self._cls("isalpha")

    def isspace(self):
        return self._cls("isspace")

    def isdecimal(self):
        return self._cls("isdecimal")

    def isalnum(self):
        return self._cls("isalnum")

    def isnumeric(self):
        return self._cls("isnumeric")

    def _is_space_char(self, c):
        return c.isspace() if isinstance(c, str) else truth(char_in_class(c, "isspace"))

    # -------------------------------------------------------------- methods
    def strip(self, chars=None):
        if chars is not None:
            raise Unsupported("strip(chars)")
        ch = self.chars
        i, j = 0, len(ch)
        while i < j and self._is_space_char(ch[i]):
            i += 1
        while j > i and self._is_space_char(ch[j - 1]):
            j -= 1
        return mk(ch[i:j])

    def lstrip(self, chars=None):
        if chars is not None:
            raise Unsupported("lstrip(chars)")
        ch = self.chars
        i = 0
        while i < len(ch) and self._is_space_char(ch[i]):
            i += 1
        return mk(ch[i:])

    def rstrip(self, chars=None):
        if chars is not None:
            raise Unsupported("rstrip(chars)")
        ch = self.chars
        j = len(ch)
        while j > 0 and self._is_space_char(ch[j - 1]):
            j -= 1
        return mk(ch[:j])

    def find(self, sub, start=0, end=None):
        sc = chars_of(sub)
        n = len(sc)
        stop = len(self.chars) if end is None else min(end, len(self.chars))
        if start < 0:
            start = max(0, len(self.chars) + start)
        for i in range(start, stop - n + 1):
            if truth(_and([ceq(a, b) for a, b in zip(self.chars[i : i + n], sc)])):
                return i
        return -1

    def index(self, sub, *a):
        r = self.find(sub, *a)
        if r < 0:
            raise ValueError("substring not found")
        return r

    def startswith(self, p, *a):
        if a or not isinstance(p, str):
            raise Unsupported("startswith variants")
        pc = chars_of(p)
        if len(pc) > len(self.chars):
            return False
        return mkbool(_and([ceq(a_, b) for a_, b in zip(self.chars, pc)]))

    def endswith(self, p, *a):
        if a or not isinstance(p, str):
            raise Unsupported("endswith variants")
        pc = chars_of(p)
        if len(pc) > len(self.chars):
            return False
        if not pc:
            return True
        return mkbool(_and([ceq(a_, b) for a_, b in zip(self.chars[-len(pc):], pc)]))

    def replace(self, old, new, count=-1):
        if count != -1:
            raise Unsupported("replace(count)")
        oc, nc = chars_of(old), chars_of(new)
        n = len(oc)
        if n == 0:
            raise Unsupported("replace('')")
        out = []
        i = 0
        while i < len(self.chars):
            if i + n <= len(self.chars) and truth(_and([ceq(a, b) for a, b in zip(self.chars[i : i + n], oc)])):
                out += nc
                i += n
            else:
                out.append(self.chars[i])
                i += 1
        return mk(out)

    def split(self, sep=None, maxsplit=-1):
        if maxsplit != -1:
            raise Unsupported("split(maxsplit)")
        if sep is None:
            raise Unsupported("split() on whitespace")
        sc = chars_of(sep)
        if len(sc) != 1:
            raise Unsupported("split on multi-char separator")
        parts, cur = [], []
        for c in self.chars:
            if truth(ceq(c, sc[0])):
                parts.append(mk(cur))
                cur = []
            else:
                cur.append(c)
        parts.append(mk(cur))
        return parts

    def splitlines(self, keepends=False):
        if keepends:
            raise Unsupported("splitlines(keepends=True)")
        bounds = [0x0A, 0x0B, 0x0C, 0x0D, 0x1C, 0x1D, 0x1E, 0x85, 0x2028, 0x2029]
        parts, cur = [], []
        i, ch = 0, self.chars
        while i < len(ch):
            c = ch[i]
            isb = (ord(c) in bounds) if isinstance(c, str) else truth(z3.Or([c == b for b in bounds]))
            if isb:
                parts.append(mk(cur))
                cur = []
                # '\r\n' is one boundary
                iscr = (c == "\r") if isinstance(c, str) else truth(c == 0x0D)
                if iscr and i + 1 < len(ch):
                    n = ch[i + 1]
                    if (n == "\n") if isinstance(n, str) else truth(n == 0x0A):
                        i += 1
            else:
                cur.append(c)
            i += 1
        if cur:
            parts.append(mk(cur))
        return parts

    def join(self, it):
        out = []
        first = True
        for s in it:
            if not first:
                out += self.chars
            out += chars_of(s)
            first = False
        return mk(out)

    def __format__(self, spec):
        return repr(self)

    def __str__(self):
        return self

    def __repr__(self):
        return "SStr(" + "".join(c if isinstance(c, str) else "?" for c in self.chars) + ")"

    def __deepcopy__(self, memo):
        return self

    def __copy__(self):
        return self

    def __reduce_ex__(self, p):
        raise Unsupported("pickle of symbolic string")

    def term_chars(self):
        return [ord(c) if isinstance(c, str) else c for c in self.chars]


def _fail_closed():
    def mkf(name):
        def f(self, *a, **k):
            raise Unsupported("SStr.%s is not modelled" % name)

        return f

    for name in dir(str):
        if name.startswith("_") or name in SStr.__dict__:
            continue
        setattr(SStr, name, mkf(name))


_fail_closed()


def join_plain(sep, parts):
    """str.join replacement usable with symbolic parts"""
    return SStr(list(sep)).join(parts) if any(isinstance(p, SStr) for p in parts) else sep.join(parts)


def sstr_to_int(x, *a):
    """int(str) as CPython does it for base 10: optional surrounding whitespace, an optional sign, then
    one or more decimal digits (any Unicode Nd digit); everything else -> ValueError.  Underscore
    separators next to symbolic characters are not modelled (Unsupported)."""
    if a:
        raise Unsupported("int(str, base)")
    s = x.strip()
    chars = list(s.chars) if isinstance(s, SStr) else list(s)
    sign = 1
    if chars:
        c0 = chars[0]
        if isinstance(c0, str):
            if c0 in "+-":
                sign = -1 if c0 == "-" else 1
                chars = chars[1:]
        elif truth(c0 == ord("-")):
            sign = -1
            chars = chars[1:]
        elif truth(c0 == ord("+")):
            chars = chars[1:]
    if not chars:
        raise ValueError("invalid literal for int() with base 10")
    if len(chars) > 4300:
        raise ValueError("Exceeds the limit (4300 digits) for integer string conversion")
    rs = ranges("isdecimal")
    val = 0
    for c in chars:
        if isinstance(c, str):
            if c == "_":
                raise Unsupported("int() with underscore separators")
            if not c.isdecimal():
                raise ValueError("invalid literal for int() with base 10")
            d = unicodedata.decimal(c)
        else:
            if truth(c == ord("_")):
                raise Unsupported("int() with underscore separators")
            if not truth(char_in_class(c, "isdecimal")):
                raise ValueError("invalid literal for int() with base 10 (symbolic)")
            d = 0
            for lo, hi in rs:
                d = z3.If(z3.And(c >= lo, c <= hi), c - lo, d)
        val = val * 10 + d
    val = val * sign
    return mkint(val) if is_z3(val) else val


def concretize(s, model):
    if isinstance(s, SStr):
        return "".join(c if isinstance(c, str) else chr(model.eval(c, model_completion=True).as_long()) for c in s.chars)
    return s


# ------------------------------------------------------------------ ISO text
class SIsoStr(str):
    """the ISO-8601 rendering of a symbolic datetime: opaque, carries the datetime;
    iso8601.parse_date is stubbed to return it (contract: parse_date(dt.isoformat()) == dt)"""

    def __new__(cls, dt, sep="T"):
        o = str.__new__(cls, "\x00<iso>\x00")
        o.dt = dt
        o.sep = sep
        return o

    def __eq__(self, o):
        if isinstance(o, SIsoStr):
            from .shadows import mkbool as _mb, And as _And

            offs_equal = (self.dt.off == o.dt.off) if not (is_z3(self.dt.off) or is_z3(o.dt.off)) else (self.dt.off == o.dt.off)
            return _mb(_And(self.dt.us == o.dt.us, offs_equal))
        if isinstance(o, str):
            raise Unsupported("comparison of symbolic ISO text with a plain string")
        return False

    def __ne__(self, o):
        r = self.__eq__(o)
        if isinstance(r, bool):
            return not r
        return ~r

    def __hash__(self):
        return 0x150

    def __deepcopy__(self, memo):
        return self

    def __repr__(self):
        return "SIsoStr(%r)" % (self.dt,)

    __str__ = __repr__

    def __format__(self, spec):
        return repr(self)


def _fail_closed_iso():
    def mkf(name):
        def f(self, *a, **k):
            raise Unsupported("SIsoStr.%s is not modelled" % name)

        return f

    for name in dir(str):
        if name.startswith("_") or name in SIsoStr.__dict__:
            continue
        setattr(SIsoStr, name, mkf(name))
    for name in ("__len__", "__iter__", "__getitem__", "__add__", "__radd__", "__contains__", "__lt__", "__le__", "__gt__", "__ge__", "__mod__", "__mul__"):
        setattr(SIsoStr, name, mkf(name))


_fail_closed_iso()


def iso_render(dt, sep="T"):
    """character-level datetime.isoformat() for a symbolic datetime whose epoch second and UTC
    offset are concrete and whose microsecond is symbolic: 'YYYY-MM-DDTHH:MM:SS[.ffffff]+HH:MM'
    (CPython omits the fraction iff microsecond == 0)"""
    from datetime import datetime as _dt, timedelta as _td, timezone as _tz

    sec, micro = dt.parts
    local = _dt(1970, 1, 1, tzinfo=_tz.utc) + _td(seconds=sec)
    local = local.astimezone(_tz(_td(minutes=dt.off)))
    whole = local.isoformat(sep)  # no fraction: microsecond == 0
    head, tail = whole[:19], whole[19:]
    if isinstance(micro, int):
        frac = (".%06d" % micro) if micro else ""
        return head + frac + tail
    if truth(micro == 0):
        return head + tail
    digits = [((micro / (10 ** (5 - i))) % 10) + ord("0") for i in range(6)]
    return SStr(list(head) + ["."] + digits + list(tail))


def iso_parse(s, ParseError):
    """iso8601.parse_date restricted to 'YYYY-MM-DD[ T]HH:MM:SS[(.|,)digits](Z|+HH[:][MM])?' with
    symbolic fraction digits; anything else raises the library's ParseError (as its regex would)"""
    from datetime import datetime as _dt, timezone as _tz
    from .shadows import SDatetime

    ch = s.chars
    if len(ch) < 19 or not all(isinstance(c, str) for c in ch[:19]):
        raise Unsupported("symbolic character in the date/time part of an ISO string")
    head = "".join(ch[:19])
    try:
        if head[10] not in " T":
            raise ValueError
        base = _dt.strptime(head[:10] + "T" + head[11:], "%Y-%m-%dT%H:%M:%S")
    except ValueError:
        raise ParseError("Unable to parse date string (symbolic)")
    i = 19
    micro = 0
    if i < len(ch) and truth(z3.Or(ceq(ch[i], "."), ceq(ch[i], ","))):
        i += 1
        digs = []
        while i < len(ch):
            c = ch[i]
            isd = (c in "0123456789") if isinstance(c, str) else truth(z3.And(c >= ord("0"), c <= ord("9")))
            if not isd:
                break
            digs.append((ord(c) - 48) if isinstance(c, str) else (c - 48))
            i += 1
        if not digs:
            raise ParseError("Unable to parse date string (symbolic)")
        for k, d in enumerate(digs[:6]):
            micro = micro + d * 10 ** (5 - k)
    rest = ch[i:]
    if not all(isinstance(c, str) for c in rest):
        raise Unsupported("symbolic character in the timezone part of an ISO string")
    rest = "".join(rest)
    import re as _re

    m = _re.fullmatch(r"(Z|([-+])([0-9]{2}):?([0-9]{2})?)?", rest)
    if not m:
        raise ParseError("Unable to parse date string (symbolic)")
    off = 0
    if rest and rest != "Z":
        off = (int(m.group(3)) * 60 + int(m.group(4) or 0)) * (-1 if m.group(2) == "-" else 1)
    sec = int((base.replace(tzinfo=_tz.utc) - _dt(1970, 1, 1, tzinfo=_tz.utc)).total_seconds()) - off * 60
    return SDatetime(sec * 1000000 + micro, off, False, (sec, micro))


def sym_parse_date(orig, ParseError=None):
    def parse_date(s, *a, **k):
        from datetime import datetime as _dt

        if isinstance(s, _dt):
            return s  # a datetime-typed cell the ORM would have rendered as text and parsed back
        if isinstance(s, SIsoStr):
            return s.dt
        if isinstance(s, SStr):
            if ParseError is None:
                raise Unsupported("iso8601.parse_date on a symbolic string")
            return iso_parse(s, ParseError)
        return orig(s, *a, **k)

    return parse_date
