"""Shadow-value symbolic execution engine: decision trails, re-execution DFS,
one incremental z3 solver whose assertion stack mirrors the trail,
model-guided branching, per-path obligations.

The functions under test are the real functions imported from /repo; they are
executed by CPython on shadow objects (symex.shadows, symex.sstr).  Whenever the
program needs the truth value of a symbolic condition the shadow calls
``ENG.branch``.
"""
import ctypes
import time
import z3


class Abort(BaseException):
    """Path is infeasible / must be abandoned (BaseException: real code's
    ``except Exception`` must not swallow it)."""


class Unsupported(BaseException):
    """A construct the shadows cannot encode was reached: inconclusive, never a verdict."""


class Frontier(BaseException):
    """Raised by the splitting driver when a path reaches the split depth."""


class Engine:
    def __init__(self, seed=0, timeout_ms=120000):
        self.seed = seed
        self.timeout_ms = timeout_ms
        self.no_retry = False
        self.concrete = False  # concrete (native) mode: no branching allowed
        self.fresh_solver_per_path = False
        self.cross_budget = 0  # number of unsat path verdicts to re-decide with cvc5
        self.confirm = None  # callback(name, model) -> bool: does the model reproduce natively?
        self.confirm_tries = 12
        self.blocking_terms = lambda model: []
        self.values = None  # concrete input values (native mode)
        self._new_solver()
        self.trail = []
        self.pos = 0
        self.model = None
        self.carried = None
        self.worklist = []
        self.last_trail = []
        self.split_depth = None
        self.base = 0
        self.noise_used = False
        self.noise_sites = []
        self.decided = {}
        self.picked = {}
        self.freshn = 0
        self.declared = {}
        self.stats = dict(
            paths=0, decisions=0, queries=0, sat=0, unsat=0, unknown=0,
            solver_s=0.0, aborted=0, obligations=0, discharged=0, max_depth=0,
            concretized=0, nontrivial_paths=0,
        )
        self.inconclusive = []

    # ---------------------------------------------------------------- solver
    def _new_solver(self):
        self.solver = z3.Solver()
        self.solver.set("timeout", self.timeout_ms)
        self.solver.set("random_seed", self.seed % (2**31))
        self.nframes = 0
        self.retain = 0

    def _check(self, *extra):
        t = time.time()
        self.stats["queries"] += 1
        if extra:
            self.solver.push()
            self.solver.add(*extra)
        r = self.solver.check()
        m = self.solver.model() if r == z3.sat else None
        if r == z3.unknown and not self.no_retry:
            # a time-out of the long-lived incremental solver (typically on a loaded machine): decide the same
            # assertions once more on a fresh solver with three times the budget before giving up
            self.stats["retried_unknown"] = self.stats.get("retried_unknown", 0) + 1
            s2 = z3.Solver()
            s2.set("timeout", 3 * self.timeout_ms)
            s2.add(*self.solver.assertions())
            r = s2.check()
            m = s2.model() if r == z3.sat else None
        if extra:
            self.solver.pop()
        self.stats["solver_s"] += time.time() - t
        self.stats[str(r)] += 1
        return str(r), m

    # ------------------------------------------------------------ path state
    def _start_path(self, trail, model, nforks=0):
        self.nforks = nforks
        if self.fresh_solver_per_path:
            # arithmetic-heavy lemmas: z3 is much faster on a fresh solver than on a long-lived incremental one
            self._new_solver()
            self.last_trail = []
        common = 0
        lt = self.last_trail
        while common < len(lt) and common < len(trail) and lt[common] == trail[common]:
            common += 1
        # never retain the frame of the last decision of the new trail (it is flipped)
        common = min(common, max(len(trail) - 1, 0))
        retain = min(self.nframes, common + 1)
        while self.nframes > retain:
            self.solver.pop()
            self.nframes -= 1
        self.retain = retain
        if self.nframes == 0:
            self.solver.push()
            self.nframes = 1
        self.trail = list(trail)
        self.pos = 0
        self.model = None
        self.carried = model
        self.freshn = 0
        self.declared = {}
        self.noise_used = False
        self.noise_sites = []
        self.decided = {}
        self.picked = {}
        if not self.trail and model is not None:
            self.model = model

    def assume(self, cond):
        if self.concrete:
            if cond is True:
                return
            if cond is False:
                raise Abort()
            raise TypeError("symbolic assumption in concrete mode")
        if isinstance(cond, bool):
            if not cond:
                raise Abort()
            return
        if self.pos >= self.retain:
            self.solver.add(cond)
        if self.model is not None:
            if not z3.is_true(self.model.eval(cond, model_completion=True)):
                self.model = None

    def branch(self, cond):
        """Truth value of a symbolic condition on the current path."""
        if isinstance(cond, bool):
            return cond
        if self.concrete:
            raise TypeError("symbolic branch in concrete mode: %r" % (cond,))
        try:
            cond = z3.simplify(cond)
        except ctypes.ArgumentError:
            raise RecursionError("maximum recursion depth exceeded (inside the solver binding)") from None
        if z3.is_true(cond):
            return True
        if z3.is_false(cond):
            return False
        # a condition already decided on this path keeps its value (no new decision, no solver query)
        key = cond.get_id()
        hit = self.decided.get(key)
        if hit is not None:
            return hit[0]
        if z3.is_not(cond):
            hit = self.decided.get(cond.arg(0).get_id())
            if hit is not None:
                return not hit[0]
        try:
            d = self._branch(cond)
        except ctypes.ArgumentError:
            # the interpreter's recursion limit was hit inside the z3 binding (deeply recursive code under
            # test): surface it as the RecursionError the code under test would have seen
            raise RecursionError("maximum recursion depth exceeded (inside the solver binding)") from None
        self.decided[key] = (d, cond)
        return d

    def pick(self, z):
        """a concrete value of the integer term z on this path; the other feasible values are explored
        on other paths.  The value tried at each step is recorded in the decision trail, so that
        re-execution proposes the same values in the same order."""
        zid = z.get_id()
        if zid in self.picked:
            return self.picked[zid]  # already fixed on this path
        for _ in range(100000):
            i = self.pos
            if i < len(self.trail):
                e = self.trail[i]
                if not isinstance(e, tuple):
                    raise RuntimeError("harness is not deterministic: value decision expected in the trail")
                v = e[1]
            else:
                m = self.get_model()
                if m is None:
                    raise Abort()
                v = m.eval(z, model_completion=True).as_long()
            self.stats["concretized"] += 1
            cond = z3.simplify(z == v)
            if z3.is_true(cond):
                return v
            if z3.is_false(cond):
                raise Abort()
            hit = self.decided.get(cond.get_id())
            if hit is not None:
                if hit[0]:
                    self.picked[zid] = v
                    return v
                self.model = None
                continue
            d = self._branch(cond, v)
            self.decided[cond.get_id()] = (d, cond)
            if d:
                self.picked[zid] = v
                return v
            if self.model is not None and z3.is_true(self.model.eval(cond, model_completion=True)):
                self.model = None
        raise Unsupported("symbolic index with too many values")

    def _branch(self, cond, tagval=None):
        i = self.pos
        if i < len(self.trail):
            d = self.trail[i]
            if isinstance(d, tuple):
                d = d[0]
            replay = True
        else:
            replay = False
            if self.split_depth is not None and self.nforks >= self.split_depth:
                raise Frontier()
            if self.model is None:
                r, m = self._check()
                if r != "sat":
                    if r == "unknown":
                        self.inconclusive.append("unknown at path feasibility check")
                    raise Abort()
                self.model = m
            d = z3.is_true(self.model.eval(cond, model_completion=True))
        c = cond if d else z3.Not(cond)
        if not replay:
            other = z3.Not(cond) if d else cond
            r, m = self._check(other)
            if r == "sat":
                self.nforks += 1
                self.worklist.append((self.trail[:i] + [(not d) if tagval is None else ((not d), tagval)], m, self.nforks))
            elif r == "unknown":
                self.inconclusive.append("unknown at branch feasibility check (branch not explored)")
            self.trail.append(d if tagval is None else (d, tagval))
        if i + 1 >= self.retain:
            self.solver.push()
            self.nframes += 1
            self.solver.add(c)
        self.pos = i + 1
        if replay:
            if self.pos == len(self.trail):
                self.model = self.carried
            elif self.model is not None and not z3.is_true(self.model.eval(c, model_completion=True)):
                self.model = None
        self.stats["decisions"] += 1
        return d

    def _cross_check(self, bad):
        """re-decide 'path condition and not(obligations)' with cvc5 on the SMT-LIB text z3 exports"""
        try:
            import cvc5
        except Exception:  # noqa
            self.stats["cvc5_unavailable"] = self.stats.get("cvc5_unavailable", 0) + 1
            return
        self.solver.push()
        self.solver.add(bad)
        txt = self.solver.to_smt2()
        self.solver.pop()
        t = time.time()
        verdict = "error"
        try:
            slv = cvc5.Solver()
            slv.setLogic("ALL")
            slv.setOption("tlimit-per", "20000")
            p = cvc5.InputParser(slv)
            p.setStringInput(cvc5.InputLanguage.SMT_LIB_2_6, txt, "q")
            sm = p.getSymbolManager()
            while True:
                c = p.nextCommand()
                if c.isNull():
                    break
                out = c.invoke(slv, sm).strip()
                if out in ("sat", "unsat", "unknown"):
                    verdict = out
        except Exception as e:  # noqa
            verdict = "error"
        self.stats["cvc5_s"] = self.stats.get("cvc5_s", 0.0) + time.time() - t
        self.stats["cvc5_" + verdict] = self.stats.get("cvc5_" + verdict, 0) + 1
        if verdict == "sat":
            self.inconclusive.append("solver disagreement: z3 says unsat, cvc5 says sat on a path obligation")

    def get_model(self, timeout_ms=None):
        if self.model is None:
            if timeout_ms is not None:
                self.solver.set("timeout", timeout_ms)
                self.no_retry = True
            try:
                r, m = self._check()
            finally:
                self.no_retry = False
                if timeout_ms is not None:
                    self.solver.set("timeout", self.timeout_ms)
            if r != "sat":
                if r == "unknown":
                    self.stats["unknown"] -= 1  # a model for sampling / validation only: not a verdict
                    self.stats["model_timeouts"] = self.stats.get("model_timeouts", 0) + 1
                return None
            self.model = m
        return self.model

    # --------------------------------------------------------------- symbols
    def fresh_name(self, base):
        self.freshn += 1
        return "%s!%d" % (base, self.freshn)

    # --------------------------------------------------------------- explore
    def explore(self, fn, roots=None, max_paths=None, deadline=None, on_path=None, stop_on_cex=True):
        """fn() -> list of (name, z3 Bool | bool) obligations.  Returns dict with
        counterexamples [(name, model, trail)], leftover worklist trails."""
        self.worklist = [(list(t), None, 0) for t in (roots if roots is not None else [[]])]
        cex = []
        frontier = []
        npaths = 0
        while self.worklist:
            if max_paths is not None and npaths >= max_paths:
                break
            if deadline is not None and time.time() > deadline:
                break
            trail, model, nforks = self.worklist.pop()
            self._start_path(trail, model, nforks)
            try:
                try:
                    obligations = fn()
                finally:
                    self.last_trail = self.trail[: self.pos]
            except Abort:
                self.stats["aborted"] += 1
                continue
            except Frontier:
                frontier.append(list(self.trail[: self.pos]))
                continue
            if self.pos < len(self.trail):
                raise RuntimeError("harness is not deterministic: path ended before its decision trail was replayed")
            npaths += 1
            self.stats["paths"] += 1
            if self.pos > 0:
                self.stats["nontrivial_paths"] += 1
            self.stats["max_depth"] = max(self.stats["max_depth"], self.pos)
            obs = []
            for name, ob in obligations:
                self.stats["obligations"] += 1
                if isinstance(ob, bool):
                    ob = z3.BoolVal(ob)
                obs.append((name, ob))
            failed = []
            if obs:
                bad = z3.Or([z3.Not(o) for _, o in obs])
                r, m = self._check(bad)
                if r == "unsat":
                    self.stats["discharged"] += len(obs)
                    if self.cross_budget > 0:
                        self.cross_budget -= 1
                        self._cross_check(bad)
                else:
                    for name, ob in obs:
                        r2, m2 = self._check(z3.Not(ob))
                        if r2 == "unsat":
                            self.stats["discharged"] += 1
                        elif r2 == "sat":
                            # the encoding over-approximates in places (float ties, SQL edge noise): look for a
                            # model that also reproduces natively before settling for the first one
                            best = m2
                            if self.confirm is not None and not self.confirm(name, m2):
                                block = []
                                for _ in range(self.confirm_tries):
                                    vals = self.blocking_terms(m2)
                                    if not vals:
                                        break
                                    block.append(z3.Or([t != v for t, v in vals]))
                                    r3, m3 = self._check(z3.Not(ob), *block)
                                    if r3 != "sat":
                                        break
                                    m2 = m3
                                    if self.confirm(name, m3):
                                        best = m3
                                        break
                            failed.append((name, best))
                        else:
                            self.inconclusive.append("unknown on obligation %s" % name)
            if on_path is not None:
                on_path(self, obligations, failed)
            for name, m in failed:
                cex.append((name, m, list(self.trail[: self.pos])))
            if failed and stop_on_cex:
                break
        left = [t for t, _, _ in self.worklist]
        self.worklist = []
        return dict(cex=cex, left=left, frontier=frontier)


ENG = Engine()


def set_engine(e):
    global ENG
    ENG = e
    return e


def eng():
    return ENG
