"""Shadow values: real-type subclasses / stand-ins that carry z3 terms.

SInt, SBool            mathematical integers / booleans
SRatio                 exact rational n/d with concrete positive d (the "exact
                       mode" stand-in for Python floats that hold seconds or
                       microseconds: no rounding; IEEE rounding is decided
                       separately, see symex.fp)
STimedelta(us)         timedelta subclass, integer microseconds
SDatetime(us, off)     aware datetime subclass: integer microseconds since the
                       epoch + UTC offset in minutes (concrete int or z3 Int)

Everything that is not implemented raises Unsupported (fail closed).
"""
import numbers
from datetime import datetime, timedelta, timezone, tzinfo as _tzinfo

import z3

from . import engine as E
from .engine import Unsupported

EPOCH = datetime(1970, 1, 1, tzinfo=timezone.utc)


def _branch(c):
    return E.ENG.branch(c)


# --------------------------------------------------------------------- logic
def is_z3(x):
    return isinstance(x, z3.ExprRef)


def And(*xs):
    if len(xs) == 1 and not is_z3(xs[0]) and not isinstance(xs[0], bool):
        xs = list(xs[0])
    out = []
    for x in xs:
        if x is True:
            continue
        if x is False:
            return False
        out.append(x)
    if not out:
        return True
    if len(out) == 1:
        return out[0]
    return z3.And(out)


def Or(*xs):
    if len(xs) == 1 and not is_z3(xs[0]) and not isinstance(xs[0], bool):
        xs = list(xs[0])
    out = []
    for x in xs:
        if x is False:
            continue
        if x is True:
            return True
        out.append(x)
    if not out:
        return False
    if len(out) == 1:
        return out[0]
    return z3.Or(out)


def Not(x):
    if isinstance(x, bool):
        return not x
    return z3.Not(x)


def Implies(a, b):
    return Or(Not(a), b)


def Iff(a, b):
    if isinstance(a, bool) and isinstance(b, bool):
        return a == b
    if isinstance(a, bool):
        return b if a else Not(b)
    if isinstance(b, bool):
        return a if b else Not(a)
    return a == b


def If(c, a, b):
    if isinstance(c, bool):
        return a if c else b
    if not is_z3(a):
        a = z3.IntVal(a)
    if not is_z3(b):
        b = z3.IntVal(b)
    return z3.If(c, a, b)


def Sum(xs):
    xs = list(xs)
    tot = 0
    for x in xs:
        tot = tot + x
    return tot


def Eq(a, b):
    r = a == b
    return r


def B(x):
    """logic value (z3 Bool | bool) of a shadow / python truth value"""
    if isinstance(x, SBool):
        return x.z
    if isinstance(x, bool):
        return x
    if is_z3(x):
        return x
    raise TypeError(type(x))


# ---------------------------------------------------------------------- SBool
class SBool:
    __slots__ = ("z",)

    def __init__(self, z):
        self.z = z

    def __bool__(self):
        return _branch(self.z)

    def __and__(self, o):
        return SBool(And(self.z, B(o)))

    __rand__ = __and__

    def __or__(self, o):
        return SBool(Or(self.z, B(o)))

    __ror__ = __or__

    def __invert__(self):
        return SBool(Not(self.z))

    def __eq__(self, o):
        if isinstance(o, (SBool, bool)):
            return mkbool(Iff(self.z, B(o)))
        return NotImplemented

    def __hash__(self):
        raise Unsupported("hash of symbolic bool")

    def __repr__(self):
        return "SBool(%s)" % (self.z,)

    def __deepcopy__(self, memo):
        return self


def mkbool(c):
    if isinstance(c, bool):
        return c
    c = z3.simplify(c)
    if z3.is_true(c):
        return True
    if z3.is_false(c):
        return False
    return SBool(c)


# ----------------------------------------------------------------------- SInt
def zint(x):
    """z3 Int term (or python int) of an int-like"""
    if isinstance(x, SInt):
        return x.z
    if isinstance(x, bool):
        return int(x)
    if isinstance(x, int):
        return x
    raise TypeError("not an int-like: %r" % type(x))


def _zi(x):
    x = zint(x)
    return x


def mkint(z):
    if isinstance(z, int):
        return z
    z = z3.simplify(z)
    if z3.is_int_value(z):
        return z.as_long()
    return SInt(z)


class SInt:
    """Symbolic mathematical integer.  Hash is constant so that dict / set /
    tuple-key lookups fall through to ``==`` (which forks)."""

    def __init__(self, z, tag=None):
        self.z = z
        self.tag = tag  # provenance for the ms-floor shortcut, see SDatetime.replace

    def __add__(self, o):
        if isinstance(o, SRatio):
            return o.__radd__(self)
        if not isinstance(o, (SInt, int)):
            return NotImplemented
        return mkint(self.z + _zi(o))

    __radd__ = __add__

    def __sub__(self, o):
        if isinstance(o, SRatio):
            return o.__rsub__(self)
        if not isinstance(o, (SInt, int)):
            return NotImplemented
        return mkint(self.z - _zi(o))

    def __rsub__(self, o):
        if not isinstance(o, (SInt, int)):
            return NotImplemented
        return mkint(_zi(o) - self.z)

    def __mul__(self, o):
        if isinstance(o, SRatio):
            return o.__rmul__(self)
        if isinstance(o, float) and o == int(o):
            o = int(o)
        if not isinstance(o, (SInt, int)):
            return NotImplemented
        r = mkint(self.z * _zi(o))
        if isinstance(r, SInt) and isinstance(o, int) and self.tag is not None and self.tag[0] == "ms_of" and o == 1000:
            r.tag = ("floor_micro_of", self.tag[1])
        return r

    __rmul__ = __mul__

    def __neg__(self):
        return mkint(-self.z)

    def __pos__(self):
        return self

    def __abs__(self):
        return mkint(z3.If(self.z >= 0, self.z, -self.z))

    def __floordiv__(self, o):
        if isinstance(o, int) and not isinstance(o, bool) and o > 0:
            return mkint(self.z / o)  # z3 int div == floor for positive divisor
        raise Unsupported("SInt // %r" % (o,))

    def __mod__(self, o):
        if isinstance(o, int) and not isinstance(o, bool) and o > 0:
            return mkint(self.z % o)
        raise Unsupported("SInt %% %r" % (o,))

    def __truediv__(self, o):
        if isinstance(o, float) and o == int(o):
            o = int(o)
        if isinstance(o, int) and not isinstance(o, bool) and o > 0:
            from . import fp

            if fp.IEEE and not (fp.USE_MS_FLOOR_LEMMA and self.tag is not None and self.tag[0] == "micro_of" and o == 1000):
                return fp.int_div_const(self.z, o)
            # (with USE_MS_FLOOR_LEMMA: int(microsecond / 1000) * 1000 is taken exact — proved under IEEE
            #  rounding for all 10^6 values by C13's ieee-ms-floor harness, which switches the lemma off)
            r = SRatio(self.z, o)
            if self.tag is not None and self.tag[0] == "micro_of" and o == 1000:
                r.tag = ("microdiv_of", self.tag[1])
            return r
        raise Unsupported("SInt / %r" % (o,))

    def _cmp(self, o, op):
        if isinstance(o, SRatio):
            return NotImplemented
        if isinstance(o, float) and o == int(o):
            o = int(o)
        if not isinstance(o, (SInt, int)):
            return NotImplemented
        return mkbool(op(self.z, _zi(o)))

    def __lt__(self, o):
        return self._cmp(o, lambda a, b: a < b)

    def __le__(self, o):
        return self._cmp(o, lambda a, b: a <= b)

    def __gt__(self, o):
        return self._cmp(o, lambda a, b: a > b)

    def __ge__(self, o):
        return self._cmp(o, lambda a, b: a >= b)

    def __eq__(self, o):
        if isinstance(o, (SInt, int)):
            return mkbool(self.z == _zi(o))
        if isinstance(o, SRatio):
            return NotImplemented
        return False

    def __ne__(self, o):
        if isinstance(o, (SInt, int)):
            return mkbool(self.z != _zi(o))
        if isinstance(o, SRatio):
            return NotImplemented
        return True

    def __hash__(self):
        return 0x5EED

    def __bool__(self):
        return _branch(self.z != 0)

    def __index__(self):
        # enumerate the feasible values one path at a time (complete when the domain is finite)
        return E.ENG.pick(self.z)

    def __int__(self):
        raise Unsupported("int() of symbolic int through the builtin (module global 'int' not rebound)")

    def __float__(self):
        raise Unsupported("float() of symbolic int")

    def __deepcopy__(self, memo):
        return self

    def __copy__(self):
        return self

    def __repr__(self):
        return "SInt(%s)" % (self.z,)

    def __format__(self, spec):
        return repr(self)


numbers.Integral.register(SInt)


# --------------------------------------------------------------------- SRatio
class SRatio:
    """Exact rational n/d, d a concrete positive int: exact-mode stand-in for a
    Python float that holds seconds / microseconds."""

    def __init__(self, n, d=1, tag=None, floaty=False):
        if isinstance(n, SInt):
            n = n.z
        self.n = n
        self.d = d
        self.tag = tag
        self.floaty = floaty  # stands for a Python float produced by timestamp()/total_seconds() arithmetic

    @staticmethod
    def of(x):
        if isinstance(x, SRatio):
            return x
        if isinstance(x, SInt):
            return SRatio(x.z, 1)
        if isinstance(x, bool):
            raise TypeError
        if isinstance(x, int):
            return SRatio(x, 1)
        if isinstance(x, float):
            from fractions import Fraction

            f = Fraction(x)
            return SRatio(f.numerator, f.denominator)
        raise TypeError("not a number: %r" % type(x))

    def _norm(self):
        n = self.n
        if is_z3(n):
            n = z3.simplify(n)
        return SRatio(n, self.d)

    def __add__(self, o):
        try:
            o = SRatio.of(o)
        except TypeError:
            return NotImplemented
        fl = self.floaty or o.floaty
        if self.d == o.d:
            return SRatio(self.n + o.n, self.d, floaty=fl)
        return SRatio(self.n * o.d + o.n * self.d, self.d * o.d, floaty=fl)

    __radd__ = __add__

    def __sub__(self, o):
        try:
            o = SRatio.of(o)
        except TypeError:
            return NotImplemented
        fl = self.floaty or o.floaty
        if self.d == o.d:
            return SRatio(self.n - o.n, self.d, floaty=fl)
        return SRatio(self.n * o.d - o.n * self.d, self.d * o.d, floaty=fl)

    def __rsub__(self, o):
        return SRatio.of(o).__sub__(self)

    def __neg__(self):
        return SRatio(-self.n, self.d, floaty=self.floaty)

    def __mul__(self, o):
        if isinstance(o, (SInt, SRatio)) and not isinstance(SRatio.of(o).n, int):
            raise Unsupported("symbolic * symbolic")
        try:
            o = SRatio.of(o)
        except TypeError:
            return NotImplemented
        import math

        num, den = o.n, o.d
        g = math.gcd(num, self.d) if num else self.d
        return SRatio(self.n * (num // g), (self.d // g) * den, floaty=self.floaty or o.floaty)

    __rmul__ = __mul__

    def __truediv__(self, o):
        if isinstance(o, float) and o == int(o):
            o = int(o)
        if isinstance(o, int) and not isinstance(o, bool) and o > 0:
            return SRatio(self.n, self.d * o, floaty=self.floaty)
        raise Unsupported("SRatio / %r" % (o,))

    def _cmp(self, o, op):
        try:
            o = SRatio.of(o)
        except TypeError:
            return NotImplemented
        return mkbool(op(self.n * o.d, o.n * self.d))

    def __lt__(self, o):
        return self._cmp(o, lambda a, b: a < b)

    def __le__(self, o):
        return self._cmp(o, lambda a, b: a <= b)

    def __gt__(self, o):
        return self._cmp(o, lambda a, b: a > b)

    def __ge__(self, o):
        return self._cmp(o, lambda a, b: a >= b)

    def __eq__(self, o):
        r = self._cmp(o, lambda a, b: a == b)
        return False if r is NotImplemented else r

    def __ne__(self, o):
        r = self._cmp(o, lambda a, b: a != b)
        return True if r is NotImplemented else r

    def __hash__(self):
        return 0x5EED

    def __bool__(self):
        return _branch(self.n != 0) if is_z3(self.n) else self.n != 0

    def floor(self):
        if self.d == 1:
            return mkint(self.n) if is_z3(self.n) else self.n
        if not is_z3(self.n):
            return self.n // self.d
        return mkint(self.n / self.d)

    def trunc(self):
        if self.d == 1:
            return mkint(self.n) if is_z3(self.n) else self.n
        if not is_z3(self.n):
            return int(self.n / self.d) if False else (abs(self.n) // self.d) * (1 if self.n >= 0 else -1)
        n = self.n
        return mkint(z3.If(n >= 0, n / self.d, -((-n) / self.d)))

    def quantize(self, exp, rounding=None, context=None):
        """decimal.Decimal.quantize for a power-of-ten exponent: the nearest multiple of exp"""
        import decimal
        from fractions import Fraction

        if rounding not in (None, decimal.ROUND_HALF_EVEN):
            raise Unsupported("Decimal.quantize with rounding %r" % (rounding,))
        step = Fraction(exp) if not isinstance(exp, (SRatio, SInt)) else None
        if step is None or step <= 0:
            raise Unsupported("Decimal.quantize to a symbolic exponent")
        scaled = self * step.denominator / step.numerator
        n = scaled.round_half_even()
        return SRatio.of(n) * step.numerator / step.denominator

    def round_half_even(self):
        """nearest integer, ties to even (the rule of datetime/timedelta constructors)"""
        if self.d == 1:
            return mkint(self.n) if is_z3(self.n) else self.n
        n, d = self.n, self.d
        if not is_z3(n):
            from fractions import Fraction

            return round(Fraction(n, d))
        q = n / d  # floor
        r2 = 2 * (n - q * d)  # 2*remainder in [0, 2d)
        return mkint(z3.If(r2 < d, q, z3.If(r2 > d, q + 1, z3.If(q % 2 == 0, q, q + 1))))

    def __int__(self):
        raise Unsupported("int() of symbolic ratio through the builtin (module global 'int' not rebound)")

    def __float__(self):
        raise Unsupported("float() of symbolic ratio")

    def __deepcopy__(self, memo):
        return self

    def __copy__(self):
        return self

    def __repr__(self):
        return "SRatio(%s/%s)" % (self.n, self.d)

    def __format__(self, spec):
        return repr(self)


numbers.Real.register(SRatio)


# ----------------------------------------------------------------- timedelta
def td_us(x):
    """microseconds (z3 Int | int) of a timedelta-like"""
    if isinstance(x, STimedelta):
        return x.us
    if isinstance(x, timedelta):
        return (x.days * 86400 + x.seconds) * 1000000 + x.microseconds
    raise TypeError("not a timedelta: %r" % type(x))


def dt_us(x):
    """microseconds since the epoch (z3 Int | int) of an aware datetime-like"""
    if isinstance(x, SDatetime):
        return x.us
    if isinstance(x, datetime):
        if x.tzinfo is None:
            d = x - EPOCH.replace(tzinfo=None)  # naive: the wall clock reading
            return (d.days * 86400 + d.seconds) * 1000000 + d.microseconds
        d = x - EPOCH
        return (d.days * 86400 + d.seconds) * 1000000 + d.microseconds
    raise TypeError("not a datetime: %r" % type(x))


def _simp(z):
    if is_z3(z):
        z = z3.simplify(z)
        if z3.is_int_value(z):
            return z.as_long()
    return z


def mktd(us, aligned=False):
    us = _simp(us)
    if isinstance(us, int):
        return timedelta(microseconds=us)
    return STimedelta(us, aligned)


def mkdt(us, off=0, aligned=False):
    us = _simp(us)
    if isinstance(us, int) and isinstance(off, int):
        return (EPOCH + timedelta(microseconds=us)).astimezone(timezone(timedelta(minutes=off)))
    return SDatetime(us, off, aligned)


def _al(x):
    if isinstance(x, (STimedelta, SDatetime)):
        return x.aligned
    if isinstance(x, timedelta):
        return td_us(x) % 1000 == 0
    if isinstance(x, datetime):
        return x.microsecond % 1000 == 0
    return False


class STimedelta(timedelta):
    def __new__(cls, us, aligned=False):
        # the C-level payload is the largest timedelta: arithmetic that bypasses the shadow (e.g. a real
        # datetime + this object, executed by datetime.__add__ in C) overflows loudly instead of adding 0
        o = timedelta.__new__(cls, 999999999)
        o.us = us
        o.aligned = aligned
        return o

    def __add__(self, o):
        if isinstance(o, datetime):
            return mkdt(dt_us(o) + self.us, getattr(o, "off", 0) if isinstance(o, SDatetime) else _off_of(o), self.aligned and _al(o))
        if not isinstance(o, timedelta):
            return NotImplemented
        return mktd(self.us + td_us(o), self.aligned and _al(o))

    __radd__ = __add__

    def __sub__(self, o):
        if not isinstance(o, timedelta):
            return NotImplemented
        return mktd(self.us - td_us(o), self.aligned and _al(o))

    def __rsub__(self, o):
        if isinstance(o, datetime):
            return mkdt(dt_us(o) - self.us, _off_of(o), self.aligned and _al(o))
        if not isinstance(o, timedelta):
            return NotImplemented
        return mktd(td_us(o) - self.us, self.aligned and _al(o))

    def __neg__(self):
        return mktd(-self.us, self.aligned)

    def __pos__(self):
        return self

    def __abs__(self):
        return mktd(z3.If(self.us >= 0, self.us, -self.us), self.aligned)

    def __mul__(self, o):
        if isinstance(o, int) and not isinstance(o, bool):
            return mktd(self.us * o, self.aligned)
        raise Unsupported("timedelta * %r" % type(o))

    __rmul__ = __mul__

    def _cmp(self, o, op):
        if not isinstance(o, timedelta):
            return NotImplemented
        return mkbool(op(self.us, td_us(o)))

    def __lt__(self, o):
        return self._cmp(o, lambda a, b: a < b)

    def __le__(self, o):
        return self._cmp(o, lambda a, b: a <= b)

    def __gt__(self, o):
        return self._cmp(o, lambda a, b: a > b)

    def __ge__(self, o):
        return self._cmp(o, lambda a, b: a >= b)

    def __eq__(self, o):
        if not isinstance(o, timedelta):
            return False
        return mkbool(self.us == td_us(o))

    def __ne__(self, o):
        if not isinstance(o, timedelta):
            return True
        return mkbool(self.us != td_us(o))

    def __bool__(self):
        return _branch(self.us != 0)

    def __hash__(self):
        return 0x5EED

    @property
    def days(self):
        return mkint(self.us / 86400000000)

    @property
    def seconds(self):
        return mkint((self.us / 1000000) % 86400)

    @property
    def microseconds(self):
        return mkint(self.us % 1000000)

    def __floordiv__(self, o):
        if isinstance(o, timedelta) and not isinstance(o, STimedelta):
            d = td_us(o)
            if d > 0:
                return mkint(self.us / d)
        if isinstance(o, int) and not isinstance(o, bool) and o > 0:
            return mktd(self.us / o)
        raise Unsupported("timedelta // %r" % (o,))

    def __truediv__(self, o):
        if isinstance(o, timedelta) and not isinstance(o, STimedelta):
            d = td_us(o)
            if d > 0:
                from . import fp

                if fp.IEEE:
                    return fp.int_div_const(self.us, d)
                return SRatio(self.us, d, floaty=True)
        raise Unsupported("timedelta / %r" % (o,))

    def total_seconds(self):
        from . import fp

        if fp.IEEE:
            return fp.int_div_const(self.us, 1000000)
        return SRatio(self.us, 1000000, tag=("total_seconds_of", self), floaty=True)

    def __deepcopy__(self, memo):
        return self

    def __copy__(self):
        return self

    def __reduce_ex__(self, p):
        raise Unsupported("pickle/copy of symbolic timedelta")

    def __repr__(self):
        return "STimedelta(%s)" % (self.us,)

    __str__ = __repr__

    def __format__(self, spec):
        return repr(self)


class STz(_tzinfo):
    """tzinfo of a symbolic datetime (fixed offset, whole minutes, possibly symbolic)"""

    def __init__(self, off):
        self.off = off

    def utcoffset(self, dt):
        if isinstance(self.off, int):
            return timedelta(minutes=self.off)
        return STimedelta(self.off * 60000000, True)

    def tzname(self, dt):
        return "SYM"

    def dst(self, dt):
        return None

    def __bool__(self):
        return True

    def __deepcopy__(self, memo):
        return self


def _off_of(x):
    if isinstance(x, SDatetime):
        return x.off
    if isinstance(x, datetime):
        o = x.utcoffset()
        if o is None:
            raise Unsupported("naive datetime")
        us = td_us(o)
        if us % 60000000:
            raise Unsupported("utc offset with seconds")
        return us // 60000000
    raise TypeError


def tz_off(tz):
    if tz is None:
        raise Unsupported("astimezone(None): local timezone")
    if isinstance(tz, STz):
        return tz.off
    o = tz.utcoffset(None)
    us = td_us(o)
    return us // 60000000


class SDatetime(datetime):
    """Aware datetime: us = microseconds since the epoch (instant), off = UTC
    offset in minutes.  ``aligned``: us is a multiple of 1000 by construction."""

    def __new__(cls, us, off=0, aligned=False, parts=None, naive=False):
        o = datetime.__new__(cls, 2000, 1, 1, tzinfo=timezone.utc)
        o.us = us  # aware: microseconds since the epoch (instant); naive: the wall clock reading in microseconds
        o.off = off
        o.aligned = aligned
        o.parts = parts  # optional (concrete epoch second, microsecond term): enables character-level isoformat()
        o.naive = naive
        return o

    def _same_kind(self, o):
        on = o.naive if isinstance(o, SDatetime) else (o.tzinfo is None)
        if on != self.naive:
            raise TypeError("can't compare or subtract offset-naive and offset-aware datetimes")

    # arithmetic ---------------------------------------------------------
    def __add__(self, o):
        if not isinstance(o, timedelta):
            return NotImplemented
        return mkdt(self.us + td_us(o), self.off, self.aligned and _al(o))

    __radd__ = __add__

    def __sub__(self, o):
        if isinstance(o, datetime):
            self._same_kind(o)
            return mktd(self.us - dt_us(o), self.aligned and _al(o))
        if not isinstance(o, timedelta):
            return NotImplemented
        return mkdt(self.us - td_us(o), self.off, self.aligned and _al(o))

    def __rsub__(self, o):
        if isinstance(o, datetime):
            return mktd(dt_us(o) - self.us, self.aligned and _al(o))
        return NotImplemented

    def _cmp(self, o, op):
        if not isinstance(o, datetime):
            return NotImplemented
        self._same_kind(o)
        return mkbool(op(self.us, dt_us(o)))

    def __lt__(self, o):
        return self._cmp(o, lambda a, b: a < b)

    def __le__(self, o):
        return self._cmp(o, lambda a, b: a <= b)

    def __gt__(self, o):
        return self._cmp(o, lambda a, b: a > b)

    def __ge__(self, o):
        return self._cmp(o, lambda a, b: a >= b)

    def __eq__(self, o):
        if not isinstance(o, datetime):
            return False
        if (o.naive if isinstance(o, SDatetime) else (o.tzinfo is None)) != self.naive:
            return False
        return mkbool(self.us == dt_us(o))

    def __ne__(self, o):
        if not isinstance(o, datetime):
            return True
        return mkbool(self.us != dt_us(o))

    def __hash__(self):
        return 0x5EED

    def __bool__(self):
        return True

    # fields ---------------------------------------------------------------
    @property
    def microsecond(self):
        # local wall-clock microsecond == instant microsecond (offset is whole minutes)
        return SInt(self.us % 1000000, tag=("micro_of", self))

    @property
    def tzinfo(self):
        if self.naive:
            return None
        if isinstance(self.off, int):
            return timezone(timedelta(minutes=self.off)) if self.off else timezone.utc
        return STz(self.off)

    def utcoffset(self):
        return self.tzinfo.utcoffset(None)

    def replace(self, microsecond=None, tzinfo=True, **kw):
        if kw:
            raise Unsupported("datetime.replace(%s)" % ",".join(kw))
        r = self
        if microsecond is not None:
            tag = getattr(microsecond, "tag", None)
            if tag is not None and tag[0] == "floor_micro_of" and tag[1] is self:
                # int(self.microsecond / 1000) * 1000  ==  self.microsecond - self.microsecond % 1000
                if self.aligned:
                    r = self
                else:
                    pt = (self.parts[0], self.parts[1] - self.parts[1] % 1000) if self.parts else None
                    r = SDatetime(self.us - self.us % 1000, self.off, True, pt)
            else:
                m = zint(microsecond)
                if isinstance(m, int) and not (0 <= m <= 999999):
                    raise ValueError("microsecond must be in 0..999999")
                if is_z3(m):
                    # CPython raises ValueError outside 0..999999
                    if not _branch(z3.And(m >= 0, m <= 999999)):
                        raise ValueError("microsecond must be in 0..999999")
                al = isinstance(m, int) and m % 1000 == 0
                pt = (self.parts[0], m) if self.parts else None
                r = SDatetime(self.us - self.us % 1000000 + m, self.off, al, pt)
        if tzinfo is not True:
            if tzinfo is None:
                # drop the zone: the naive value keeps the wall clock reading
                if r.naive:
                    return r
                return SDatetime(r.us + r.off * 60000000, 0, r.aligned, None, naive=True)
            if r.naive:
                noff = tz_off(tzinfo)
                return SDatetime(r.us - noff * 60000000, noff, r.aligned)
            # same wall clock, new offset: instant shifts by the offset difference
            noff = tz_off(tzinfo)
            r = SDatetime(r.us + (r.off - noff) * 60000000, noff, r.aligned)
        return r

    def astimezone(self, tz=None):
        if self.naive:
            raise Unsupported("astimezone() of a naive datetime (system local time)")
        noff = tz_off(tz)
        return SDatetime(self.us, noff, self.aligned, self.parts)

    def timestamp(self):
        from . import fp

        if fp.IEEE:
            return fp.int_div_const(self.us, 1000000)
        return SRatio(self.us, 1000000, tag=("timestamp_of", self), floaty=True)

    def isoformat(self, sep="T", timespec="auto"):
        from .sstr import SIsoStr, iso_render

        if timespec != "auto":
            raise Unsupported("isoformat(timespec)")
        if self.parts is not None and isinstance(self.off, int):
            return iso_render(self, sep)
        return SIsoStr(self, sep)

    def __deepcopy__(self, memo):
        return self

    def __copy__(self):
        return self

    def __reduce_ex__(self, p):
        raise Unsupported("pickle/copy of symbolic datetime")

    def __repr__(self):
        return "SDatetime(%s,off=%s)" % (self.us, self.off)

    def __str__(self):
        # str(datetime) is isoformat(' '): the tagged text that the iso8601 stub parses back
        from .sstr import SIsoStr

        return SIsoStr(self, " ")

    def __format__(self, spec):
        return repr(self)


def _fail_closed(cls, base, keep):
    def mk(name):
        def f(self, *a, **k):
            raise Unsupported("%s.%s is not modelled" % (cls.__name__, name))

        return f

    for name in dir(base):
        if name.startswith("_") or name in keep or name in cls.__dict__:
            continue
        attr = getattr(base, name)
        if callable(attr):
            setattr(cls, name, mk(name))
        else:
            setattr(cls, name, property(mk(name)))


_fail_closed(SDatetime, datetime, {"min", "max", "resolution"})
_fail_closed(STimedelta, timedelta, {"min", "max", "resolution"})


# ---------------------------------------------------------------------- stubs
def sym_int(x=0, *a):
    """stands for the builtin ``int`` rebound in a module under test: truncation toward zero"""
    if isinstance(x, SRatio):
        r = x.trunc()
        if x.tag is not None and x.tag[0] == "microdiv_of" and isinstance(r, SInt):
            r.tag = ("ms_of", x.tag[1])
        return r
    if isinstance(x, SInt):
        return x
    from . import fp

    if isinstance(x, fp.SFloat):
        return mkint(x.trunc())
    from .sstr import SStr, sstr_to_int

    if isinstance(x, SStr):
        return sstr_to_int(x, *a)
    return int(x, *a)


def sym_float(v=0.0):
    """stands for the builtin ``float`` rebound in a module under test"""
    if isinstance(v, (SRatio, SInt)) or type(v).__name__ == "SFloat":
        return v
    return float(v)


def _sym_timedelta(*a, **kw):
    """stands for ``timedelta`` rebound in a module under test"""
    from . import fp

    vals = list(a) + list(kw.values())
    if not any(isinstance(v, (SInt, SRatio, fp.SFloat)) for v in vals):
        return timedelta(*a, **kw)
    if a or set(kw) - {"seconds", "microseconds", "milliseconds", "hours", "minutes", "days"}:
        raise Unsupported("timedelta(%r, %r)" % (a, kw))
    if any(isinstance(v, fp.SFloat) for v in vals):
        if set(kw) != {"seconds"}:
            raise Unsupported("timedelta with float in %r" % (sorted(kw),))
        return mktd(fp.seconds_to_us(kw["seconds"]), False)
    mult = dict(seconds=10**6, microseconds=1, milliseconds=1000, hours=3600 * 10**6, minutes=60 * 10**6, days=86400 * 10**6)
    tot = SRatio(0, 1)
    for k, v in kw.items():
        tot = tot + SRatio.of(v) * mult[k]
    us = tot.round_half_even()
    return mktd(zint(us), False)


class _SymTimedeltaClass:
    """callable + isinstance-able stand-in for the class ``timedelta``"""

    def __call__(self, *a, **kw):
        return _sym_timedelta(*a, **kw)

    def __instancecheck__(self, x):
        return isinstance(x, timedelta)

    def __getattr__(self, name):
        return getattr(timedelta, name)


sym_timedelta = _SymTimedeltaClass()


class SymDatetimeClass:
    """stands for the name ``datetime`` rebound in a module under test:
    fromtimestamp on exact ratios, now() from a symbolic clock."""

    def __init__(self, clock=None, local_off=0):
        self.clock = clock
        self.local_off = local_off  # minutes east of UTC of the process's local time (int or z3 Int)

    def __call__(self, *a, **k):
        return datetime(*a, **k)

    def __instancecheck__(self, x):
        return isinstance(x, datetime)

    def fromtimestamp(self, x, tz=None):
        from . import fp

        if isinstance(x, fp.SFloat):
            if tz is None:
                raise Unsupported("fromtimestamp without tz")
            return mkdt(fp.seconds_to_us(x), tz_off(tz), False)
        if isinstance(x, (SRatio, SInt)):
            if tz is None:
                raise Unsupported("fromtimestamp without tz")
            x = SRatio.of(x)
            us = (x * 1000000).round_half_even()
            return mkdt(zint(us), tz_off(tz), False)
        return datetime.fromtimestamp(x, tz)

    def now(self, tz=None):
        if self.clock is None:
            return datetime.now(tz)
        inst = self.clock(tz)  # an aware instant
        if tz is None:
            # datetime.now() is naive local time
            if isinstance(inst, SDatetime) or is_z3(self.local_off):
                return SDatetime(dt_us(inst) + self.local_off * 60000000, 0, False, None, naive=True)
            return (inst.astimezone(timezone.utc) + timedelta(minutes=self.local_off)).replace(tzinfo=None)
        if isinstance(inst, SDatetime):
            return inst.astimezone(tz)
        return inst.astimezone(tz)

    def utcnow(self):
        inst = self.clock(None)
        if isinstance(inst, SDatetime):
            return SDatetime(dt_us(inst), 0, False, None, naive=True)
        return inst.astimezone(timezone.utc).replace(tzinfo=None)

    def __getattr__(self, name):
        return getattr(datetime, name)
