"""A symbolic model of the `sqlite3` module (DB-API surface + a small SQL engine).

The storage backends' SQL text is whatever the current source (or the peewee ORM
driven by it) emits at run time; it is parsed on every execution, so an edited
WHERE clause, ORDER BY or sub-select is an edited model.  Cells may be concrete
values or shadows; a WHERE test on shadows forks like any other branch.

Transactions: the connection keeps a committed snapshot and a working copy.
commit() copies working -> committed; with isolation_level=None every statement
commits.  "The process dies" = the working copy is discarded.

Anything outside the supported subset raises Unsupported (never a verdict).
"""
import re
import sqlite3 as _real

import z3

from . import engine as E
from .engine import Unsupported
from . import shadows as S
from .shadows import SInt, SRatio, SBool, And, Or, Not, is_z3

# exception classes are the real ones (peewee maps them by identity)
Error = _real.Error
DatabaseError = _real.DatabaseError
IntegrityError = _real.IntegrityError
OperationalError = _real.OperationalError
ProgrammingError = _real.ProgrammingError
InterfaceError = _real.InterfaceError
DataError = _real.DataError
InternalError = _real.InternalError
NotSupportedError = _real.NotSupportedError
Warning = _real.Warning
Row = _real.Row
sqlite_version = _real.sqlite_version
sqlite_version_info = _real.sqlite_version_info
version = getattr(_real, "version", "2.6.0")
version_info = getattr(_real, "version_info", (2, 6, 0))
PARSE_DECLTYPES = _real.PARSE_DECLTYPES
PARSE_COLNAMES = _real.PARSE_COLNAMES
threadsafety = _real.threadsafety
paramstyle = _real.paramstyle
apilevel = _real.apilevel
Binary = _real.Binary
_ADAPTERS = {}


def register_adapter(t, f):
    _ADAPTERS[t] = f


def register_converter(name, f):
    pass


def truth(c):
    if c is None:
        return False
    if isinstance(c, bool):
        return c
    if isinstance(c, SBool):
        c = c.z
    return E.ENG.branch(c)


class JsonText:
    """json.dumps(obj) when obj may hold shadows: an opaque text wrapping a deep copy"""

    def __init__(self, obj):
        self.obj = obj

    def __repr__(self):
        return "JsonText(%r)" % (self.obj,)

    def __eq__(self, o):
        return isinstance(o, JsonText) and self.obj == o.obj

    def __hash__(self):
        return 0x75

    def __deepcopy__(self, memo):
        return self

    def __bool__(self):
        return True


class JsonStub:
    """stands for the module json inside a storage module when event data holds shadows"""

    def __init__(self):
        import json as _j

        self._j = _j
        self.JSONDecodeError = _j.JSONDecodeError

    def dumps(self, obj, *a, **k):
        from copy import deepcopy

        if _has_shadow(obj):
            _check_jsonable(obj)
            return JsonText(deepcopy(obj))
        return self._j.dumps(obj, *a, **k)

    def loads(self, s, *a, **k):
        from copy import deepcopy

        if isinstance(s, JsonText):
            return deepcopy(s.obj)
        return self._j.loads(s, *a, **k)


def _check_jsonable(o):
    """json.dumps raises TypeError for anything but dict / list / tuple / str / int / float / bool / None"""
    if o is None or isinstance(o, (str, int, float, bool, SInt, SRatio, SBool)) or type(o).__name__ == "SFloat":
        return
    if isinstance(o, dict):
        for k, v in o.items():
            if not (k is None or isinstance(k, (str, int, float, bool))):
                raise TypeError("keys must be str, int, float, bool or None, not %s" % type(k).__name__)
            _check_jsonable(v)
        return
    if isinstance(o, (list, tuple)):
        for v in o:
            _check_jsonable(v)
        return
    raise TypeError("Object of type %s is not JSON serializable" % type(o).__name__)


def _has_shadow(o):
    if isinstance(o, (SInt, SRatio, SBool)) or type(o).__name__ in ("SStr", "SDatetime", "STimedelta", "SFloat"):
        return True
    if isinstance(o, dict):
        return any(_has_shadow(k) or _has_shadow(v) for k, v in o.items())
    if isinstance(o, (list, tuple)):
        return any(_has_shadow(v) for v in o)
    return False


# ------------------------------------------------------------------ tokenizer
_TOKEN = re.compile(
    r"""\s*(?:
      (?P<num>\d+\.\d*|\.\d+|\d+)
    | (?P<str>'(?:[^']|'')*')
    | (?P<qid>"(?:[^"]|"")*"|`[^`]*`|\[[A-Za-z_][A-Za-z_0-9]*\])
    | (?P<id>[A-Za-z_][A-Za-z_0-9]*)
    | (?P<op><=|>=|!=|<>|==|\|\||[=<>+\-*/(),.;?%])
    )""",
    re.X,
)
KEYWORDS = {
    "SELECT", "FROM", "WHERE", "AND", "OR", "NOT", "IN", "ORDER", "BY", "LIMIT", "OFFSET", "AS", "SET", "VALUES", "NULL", "INSERT", "INTO", "UPDATE",
    "DELETE", "CREATE", "TABLE", "INDEX", "IF", "EXISTS", "PRIMARY", "KEY", "AUTOINCREMENT", "UNIQUE", "FOREIGN", "REFERENCES", "DEFAULT", "PRAGMA",
    "DESC", "ASC", "IS", "DISTINCT", "ON", "BEGIN", "COMMIT", "ROLLBACK", "DROP", "ALTER", "ADD", "COLUMN", "LIKE", "BETWEEN", "CASE", "WHEN", "THEN",
    "ELSE", "END", "JOIN", "LEFT", "INNER", "GROUP", "HAVING", "UNION", "CONFLICT", "REPLACE", "TRANSACTION", "DEFERRED", "IMMEDIATE", "EXCLUSIVE",
    "SAVEPOINT", "RELEASE", "CONSTRAINT", "CHECK", "COLLATE", "CASCADE", "RESTRICT", "WITHOUT", "ROWID", "TEMP", "TEMPORARY", "VIEW", "TRIGGER",
}


def tokenize(sql):
    pos = 0
    out = []
    sql = sql.strip()
    while pos < len(sql):
        m = _TOKEN.match(sql, pos)
        if not m or m.end() == pos:
            if sql[pos:].strip() == "":
                break
            raise Unsupported("SQL tokenizer: cannot read %r" % sql[pos : pos + 30])
        pos = m.end()
        if m.group("num") is not None:
            t = m.group("num")
            out.append(("num", float(t) if ("." in t) else int(t)))
        elif m.group("str") is not None:
            out.append(("str", m.group("str")[1:-1].replace("''", "'")))
        elif m.group("qid") is not None:
            q = m.group("qid")
            out.append(("id", q[1:-1].replace('""', '"')))
        elif m.group("id") is not None:
            w = m.group("id")
            if w.upper() in KEYWORDS:
                out.append(("kw", w.upper()))
            else:
                out.append(("id", w))
        else:
            out.append(("op", m.group("op")))
    return out


# --------------------------------------------------------------------- parser
class Parser:
    def __init__(self, sql):
        self.sql = sql
        self.toks = tokenize(sql)
        self.i = 0
        self.nparams = 0

    def peek(self, k=0):
        return self.toks[self.i + k] if self.i + k < len(self.toks) else ("eof", None)

    def next(self):
        t = self.peek()
        self.i += 1
        return t

    def at_kw(self, *words):
        for k, w in enumerate(words):
            t = self.peek(k)
            if t != ("kw", w):
                return False
        return True

    def at_op(self, op):
        return self.peek() == ("op", op)

    def accept_kw(self, *words):
        if self.at_kw(*words):
            self.i += len(words)
            return True
        return False

    def accept_op(self, op):
        if self.at_op(op):
            self.i += 1
            return True
        return False

    def expect_kw(self, *words):
        if not self.accept_kw(*words):
            raise Unsupported("SQL: expected %s at token %d of %r" % (" ".join(words), self.i, self.sql))

    def expect_op(self, op):
        if not self.accept_op(op):
            raise Unsupported("SQL: expected %r at token %d (%r) of %r" % (op, self.i, self.peek(), self.sql))

    def ident(self):
        t = self.next()
        if t[0] == "id":
            return t[1]
        if t[0] == "kw" and t[1] in ("KEY", "REPLACE", "ROWID", "INDEX", "COLUMN", "END", "TEMP"):
            return t[1].lower()
        raise Unsupported("SQL: expected identifier, got %r in %r" % (t, self.sql))

    # statements ----------------------------------------------------------
    def statement(self):
        t = self.peek()
        if t == ("kw", "SELECT"):
            st = self.select()
        elif t == ("kw", "INSERT"):
            st = self.insert()
        elif t == ("kw", "UPDATE"):
            st = self.update()
        elif t == ("kw", "DELETE"):
            st = self.delete()
        elif t == ("kw", "CREATE"):
            st = self.create()
        elif t == ("kw", "PRAGMA"):
            st = self.pragma()
        elif t == ("kw", "BEGIN"):
            self.i = len(self.toks)
            return ("begin",)
        elif t == ("kw", "COMMIT") or t == ("kw", "END"):
            self.i = len(self.toks)
            return ("commit",)
        elif t == ("kw", "ROLLBACK"):
            self.i = len(self.toks)
            return ("rollback",)
        elif t == ("kw", "DROP"):
            self.next()
            what = self.next()
            ifex = self.accept_kw("IF", "EXISTS")
            name = self.ident()
            st = ("drop", what[1], name, ifex)
        else:
            raise Unsupported("SQL statement not supported: %r" % self.sql)
        self.accept_op(";")
        if self.peek()[0] != "eof":
            raise Unsupported("SQL: trailing tokens %r in %r" % (self.toks[self.i :], self.sql))
        return st

    def pragma(self):
        self.expect_kw("PRAGMA")
        name = self.ident()
        arg = None
        if self.accept_op("="):
            arg = self.next()[1]
        elif self.accept_op("("):
            arg = self.next()[1]
            self.expect_op(")")
        return ("pragma", name.lower(), arg)

    def create(self):
        self.expect_kw("CREATE")
        unique = self.accept_kw("UNIQUE")
        if self.accept_kw("INDEX"):
            self.accept_kw("IF", "NOT", "EXISTS")
            name = self.ident()
            self.expect_kw("ON")
            table = self.ident()
            self.expect_op("(")
            cols = [self.ident()]
            while self.accept_op(","):
                cols.append(self.ident())
            self.expect_op(")")
            return ("create_index", name, table, cols, unique)
        self.expect_kw("TABLE")
        ine = self.accept_kw("IF", "NOT", "EXISTS")
        name = self.ident()
        self.expect_op("(")
        cols = []
        while True:
            if self.at_kw("FOREIGN") or self.at_kw("CONSTRAINT") or self.at_kw("PRIMARY") or self.at_kw("UNIQUE") or self.at_kw("CHECK"):
                # table constraint: skip to the matching level
                depth = 0
                while True:
                    t = self.peek()
                    if t[0] == "eof":
                        break
                    if t == ("op", "("):
                        depth += 1
                    elif t == ("op", ")"):
                        if depth == 0:
                            break
                        depth -= 1
                    elif t == ("op", ",") and depth == 0:
                        break
                    self.next()
            else:
                cols.append(self.coldef())
            if not self.accept_op(","):
                break
        self.expect_op(")")
        return ("create_table", name, cols, ine)

    def coldef(self):
        name = self.ident()
        typ = ""
        if self.peek()[0] == "id":
            typ = self.next()[1]
            if self.accept_op("("):
                while not self.accept_op(")"):
                    self.next()
        c = dict(name=name, type=typ.upper(), pk=False, autoinc=False, notnull=False, unique=False, default=None)
        while True:
            if self.accept_kw("PRIMARY", "KEY"):
                c["pk"] = True
                self.accept_kw("ASC")
                self.accept_kw("DESC")
                if self.accept_kw("AUTOINCREMENT"):
                    c["autoinc"] = True
            elif self.accept_kw("NOT", "NULL"):
                c["notnull"] = True
            elif self.accept_kw("NULL"):
                pass
            elif self.accept_kw("UNIQUE"):
                c["unique"] = True
            elif self.accept_kw("DEFAULT"):
                c["default"] = self.primary()
            elif self.accept_kw("REFERENCES"):
                self.ident()
                if self.accept_op("("):
                    self.ident()
                    self.expect_op(")")
                while self.accept_kw("ON"):
                    self.next()
                    self.next()
            elif self.accept_kw("COLLATE"):
                c["collate"] = self.ident().upper()
            else:
                break
        return c

    def insert(self):
        self.expect_kw("INSERT")
        if self.accept_kw("OR"):
            self.next()
            raise Unsupported("INSERT OR ...")
        self.expect_kw("INTO")
        table = self.ident()
        self.expect_op("(")
        cols = [self.ident()]
        while self.accept_op(","):
            cols.append(self.ident())
        self.expect_op(")")
        self.expect_kw("VALUES")
        rows = []
        while True:
            self.expect_op("(")
            vals = [self.expr()]
            while self.accept_op(","):
                vals.append(self.expr())
            self.expect_op(")")
            rows.append(vals)
            if not self.accept_op(","):
                break
        upsert = None
        if self.accept_kw("ON", "CONFLICT"):
            target = None
            if self.accept_op("("):
                target = [self.ident()]
                while self.accept_op(","):
                    target.append(self.ident())
                self.expect_op(")")
            t = self.next()
            if t != ("id", "DO") and not (t[0] == "id" and t[1].upper() == "DO"):
                raise Unsupported("ON CONFLICT without DO")
            if self.accept_kw("UPDATE"):
                self.expect_kw("SET")
                sets = []
                while True:
                    col = self.ident()
                    self.expect_op("=")
                    sets.append((col, self.expr()))
                    if not self.accept_op(","):
                        break
                where = self.expr() if self.accept_kw("WHERE") else None
                upsert = ("update", target, sets, where)
            else:
                t = self.next()
                if not (t[0] == "id" and t[1].upper() == "NOTHING"):
                    raise Unsupported("ON CONFLICT DO %r" % (t,))
                upsert = ("nothing", target, None, None)
        return ("insert", table, cols, rows, upsert)

    def update(self):
        self.expect_kw("UPDATE")
        table = self.ident()
        self.expect_kw("SET")
        sets = []
        while True:
            col = self.ident()
            self.expect_op("=")
            sets.append((col, self.expr()))
            if not self.accept_op(","):
                break
        where = self.expr() if self.accept_kw("WHERE") else None
        return ("update", table, sets, where)

    def delete(self):
        self.expect_kw("DELETE")
        self.expect_kw("FROM")
        table = self.ident()
        where = self.expr() if self.accept_kw("WHERE") else None
        return ("delete", table, where)

    def select(self):
        self.expect_kw("SELECT")
        self.accept_kw("DISTINCT") and (_ for _ in ()).throw(Unsupported("SELECT DISTINCT"))
        cols = []
        while True:
            if self.accept_op("*"):
                cols.append(("star", None, None))
            else:
                e = self.expr()
                alias = None
                if self.accept_kw("AS"):
                    alias = self.ident()
                cols.append(("expr", e, alias))
            if not self.accept_op(","):
                break
        src = None
        if self.accept_kw("FROM"):
            if self.accept_op("("):
                sub = self.select()
                self.expect_op(")")
                self.accept_kw("AS")
                alias = self.ident()
                src = ("sub", sub, alias)
            else:
                table = self.ident()
                alias = table
                if self.accept_kw("AS"):
                    alias = self.ident()
                elif self.peek()[0] == "id":
                    alias = self.ident()
                src = ("table", table, alias)
            if self.at_kw("JOIN") or self.at_kw("LEFT") or self.at_kw("INNER") or self.at_op(","):
                raise Unsupported("joins")
        where = self.expr() if self.accept_kw("WHERE") else None
        if self.at_kw("GROUP"):
            raise Unsupported("GROUP BY")
        order = []
        if self.accept_kw("ORDER", "BY"):
            while True:
                e = self.expr()
                desc = False
                if self.accept_kw("DESC"):
                    desc = True
                else:
                    self.accept_kw("ASC")
                order.append((e, desc))
                if not self.accept_op(","):
                    break
        limit = offset = None
        if self.accept_kw("LIMIT"):
            limit = self.expr()
            if self.accept_kw("OFFSET"):
                offset = self.expr()
        return ("select", cols, src, where, order, limit, offset)

    # expressions -----------------------------------------------------------
    def expr(self):
        return self.or_()

    def or_(self):
        l = self.and_()
        while self.accept_kw("OR"):
            l = ("or", l, self.and_())
        return l

    def and_(self):
        l = self.not_()
        while self.accept_kw("AND"):
            l = ("and", l, self.not_())
        return l

    def not_(self):
        if self.accept_kw("NOT"):
            return ("not", self.not_())
        return self.cmp()

    def cmp(self):
        l = self.add()
        while True:
            t = self.peek()
            if t[0] == "op" and t[1] in ("=", "==", "!=", "<>", "<", "<=", ">", ">="):
                self.next()
                op = {"==": "=", "<>": "!="}.get(t[1], t[1])
                l = ("cmp", op, l, self.add())
            elif self.at_kw("IS"):
                self.next()
                neg = self.accept_kw("NOT")
                r = self.add()
                l = ("is", neg, l, r)
            elif self.at_kw("IN") or self.at_kw("NOT", "IN"):
                neg = self.accept_kw("NOT")
                self.expect_kw("IN")
                self.expect_op("(")
                if self.at_kw("SELECT"):
                    sub = self.select()
                    self.expect_op(")")
                    l = ("in_sub", neg, l, sub)
                else:
                    items = [self.expr()]
                    while self.accept_op(","):
                        items.append(self.expr())
                    self.expect_op(")")
                    l = ("in_list", neg, l, items)
            else:
                return l

    def add(self):
        l = self.mul()
        while True:
            t = self.peek()
            if t[0] == "op" and t[1] in ("+", "-", "||"):
                self.next()
                l = ("bin", t[1], l, self.mul())
            else:
                return l

    def mul(self):
        l = self.unary()
        while True:
            t = self.peek()
            if t[0] == "op" and t[1] in ("*", "/", "%"):
                self.next()
                l = ("bin", t[1], l, self.unary())
            else:
                return l

    def unary(self):
        if self.accept_op("-"):
            return ("neg", self.unary())
        if self.accept_op("+"):
            return self.unary()
        return self.primary()

    def primary(self):
        t = self.next()
        if t[0] == "num":
            return ("const", t[1])
        if t[0] == "str":
            return ("const", t[1])
        if t == ("op", "?"):
            self.nparams += 1
            return ("param", self.nparams - 1)
        if t == ("kw", "NULL"):
            return ("const", None)
        if t == ("kw", "CASE"):
            base = None if self.at_kw("WHEN") else self.expr()
            arms = []
            while self.accept_kw("WHEN"):
                w = self.expr()
                self.expect_kw("THEN")
                arms.append((w, self.expr()))
            other = self.expr() if self.accept_kw("ELSE") else ("const", None)
            self.expect_kw("END")
            return ("case", base, arms, other)
        if t == ("op", "("):
            if self.at_kw("SELECT"):
                sub = self.select()
                self.expect_op(")")
                return ("subq", sub)
            e = self.expr()
            self.expect_op(")")
            return e
        if t[0] == "id" or (t[0] == "kw" and t[1] in ("REPLACE", "KEY", "ROWID")):
            name = t[1] if t[0] == "id" else t[1].lower()
            if self.accept_op("("):
                if self.accept_op("*"):
                    self.expect_op(")")
                    return ("call", name.lower(), "*")
                args = []
                if not self.at_op(")"):
                    args.append(self.expr())
                    while self.accept_op(","):
                        args.append(self.expr())
                self.expect_op(")")
                return ("call", name.lower(), args)
            if self.accept_op("."):
                if self.accept_op("*"):
                    return ("star", name)
                col = self.ident()
                return ("col", name, col)
            return ("col", None, name)
        raise Unsupported("SQL: unexpected token %r in %r" % (t, self.sql))


_PARSE_CACHE = {}


def parse_sql(sql):
    if sql not in _PARSE_CACHE:
        p = Parser(sql)
        st = p.statement()
        _PARSE_CACHE[sql] = (st, p.nparams)
    return _PARSE_CACHE[sql]


# ------------------------------------------------------------------- engine
class Table:
    def __init__(self, name, cols):
        self.name = name
        self.cols = cols
        self.colnames = [c["name"] for c in cols]
        self.rows = []  # dicts; key '__rowid__' always present
        self.seq = 0  # AUTOINCREMENT high-water mark (may be a z3 term)
        self.pk = None
        for c in cols:
            if c["pk"] and c["type"] in ("INTEGER", "INT") or (c["pk"] and c["type"] == "INTEGER"):
                self.pk = c["name"]
        self.autoinc = any(c["autoinc"] for c in cols)

    def copy(self):
        t = Table(self.name, self.cols)
        t.rows = [dict(r) for r in self.rows]
        t.seq = self.seq
        return t


def zmax(a, b):
    if isinstance(a, int) and isinstance(b, int):
        return max(a, b)
    return z3.If(_zi(a) >= _zi(b), _zi(a), _zi(b))


def _zi(v):
    if isinstance(v, SInt):
        return v.z
    return v


def num_parts(v):
    """(numerator term|int, denominator int) of a numeric cell"""
    if isinstance(v, bool):
        return int(v), 1
    if isinstance(v, int):
        return v, 1
    if isinstance(v, SInt):
        return v.z, 1
    if isinstance(v, SRatio):
        return v.n, v.d
    if isinstance(v, float):
        from fractions import Fraction

        f = Fraction(v)
        return f.numerator, f.denominator
    if is_z3(v):
        return v, 1
    if type(v).__name__ == "SFloat":
        return v.r, 1
    return None


def is_num(v):
    return num_parts(v) is not None


def cmp_values(op, a, b):
    """SQL comparison -> logic value (z3 Bool | bool) or None (NULL)"""
    if a is None or b is None:
        return None
    pa, pb = num_parts(a), num_parts(b)
    if pa is not None and pb is not None:
        l, r = pa[0] * pb[1], pb[0] * pa[1]
        res = {"=": lambda: l == r, "!=": lambda: l != r, "<": lambda: l < r, "<=": lambda: l <= r, ">": lambda: l > r, ">=": lambda: l >= r}[op]()
        return res
    from .sstr import SStr

    if isinstance(a, SymEndText) or isinstance(b, SymEndText):
        return cmp_endtext(op, a, b)
    if isinstance(a, (S.SDatetime,)) or isinstance(b, (S.SDatetime,)):
        return cmp_dt_text(op, a, b)
    if isinstance(a, str) and isinstance(b, str):
        if isinstance(a, SStr) or isinstance(b, SStr):
            if op == "=":
                return S.B(a == b) if not isinstance(a == b, bool) else (a == b)
            if op == "!=":
                r = a == b
                return Not(S.B(r)) if not isinstance(r, bool) else (not r)
            raise Unsupported("ordering comparison of symbolic text")
        return {"=": a == b, "!=": a != b, "<": a < b, "<=": a <= b, ">": a > b, ">=": a >= b}[op]
    if isinstance(a, JsonText) or isinstance(b, JsonText):
        if op in ("=", "!="):
            r = a == b
            return r if op == "=" else not r
        raise Unsupported("ordering of JSON text")
    # numeric < text in SQLite's type ordering
    if pa is not None and isinstance(b, str):
        return {"=": False, "!=": True, "<": True, "<=": True, ">": False, ">=": False}[op]
    if isinstance(a, str) and pb is not None:
        return {"=": False, "!=": True, "<": False, "<=": False, ">": True, ">=": True}[op]
    raise Unsupported("SQL comparison %r %s %r" % (type(a), op, type(b)))


def cmp_dt_text(op, a, b):
    """peewee stores aware datetimes as text 'YYYY-MM-DD HH:MM:SS[.ffffff]+HH:MM'.  Two such texts
    compare as their renderings do: local wall clock first, then fraction, then the offset suffix.
    Modelled for equal (concrete) offsets: text order == instant order, except that a value with a
    zero microsecond renders without a fraction ('...:SS+00:00' vs '...:SS.5+00:00': '+' < '.')."""
    if not (isinstance(a, (S.SDatetime,)) or hasattr(a, "utcoffset")) or not (isinstance(b, (S.SDatetime,)) or hasattr(b, "utcoffset")):
        raise Unsupported("datetime text compared with %r / %r" % (type(a), type(b)))
    oa, ob = S._off_of(a), S._off_of(b)
    ua, ub = S.dt_us(a), S.dt_us(b)
    # the text is the LOCAL wall clock followed by the offset suffix: compare (wall second, fraction, suffix).
    # A zero microsecond renders without a fraction, and '+' / '-' (0x2b / 0x2d) sort before '.' (0x2e),
    # which agrees with fraction 0 < any fraction.
    wa, wb = ua + oa * 60000000, ub + ob * 60000000
    sa = wa / 1000000 if is_z3(wa) else wa // 1000000
    sb = wb / 1000000 if is_z3(wb) else wb // 1000000
    fa, fb = wa % 1000000, wb % 1000000

    def suffix_lt(x_, y_):
        # '+HH:MM' < '-HH:MM'; among '+' larger offsets are larger texts, among '-' larger magnitudes are
        if isinstance(x_, int) and isinstance(y_, int):
            kx, ky = ((0, x_) if x_ >= 0 else (1, -x_)), ((0, y_) if y_ >= 0 else (1, -y_))
            return kx < ky
        return z3.If(x_ >= 0, z3.If(y_ >= 0, x_ < y_, True), z3.If(y_ >= 0, False, -x_ < -y_))

    same_off = (oa == ob)
    lt = Or(sa < sb, And(sa == sb, fa < fb), And(sa == sb, fa == fb, suffix_lt(oa, ob)))
    eq = And(sa == sb, fa == fb, same_off)
    return {"=": eq, "!=": Not(eq), "<": lt, "<=": Or(lt, eq), ">": Not(Or(lt, eq)), ">=": Not(lt)}[op]


def and3(a, b):
    if a is False or b is False:
        return False
    if a is None or b is None:
        if a is None and b is None:
            return None
        other = b if a is None else a
        if other is True:
            return None
        # NULL AND x : false if x false else NULL -> treat as false-or-null: for WHERE purposes (x and False)
        return And(other, False)
    return And(a, b)


def or3(a, b):
    if a is True or b is True:
        return True
    if a is None or b is None:
        other = b if a is None else a
        if other is None or other is False:
            return None
        return other  # x OR NULL: true if x else NULL (falsey)
    return Or(a, b)


class Connection:
    def __init__(self, database=":memory:", timeout=5.0, detect_types=0, isolation_level="", check_same_thread=True, **kw):
        self.database = database
        self.isolation_level = isolation_level
        self.shared = database != ":memory:" and isinstance(database, str) and database != ""
        if self.shared and database not in DATABASES:
            DATABASES[database] = {}
        self.committed = DATABASES[database] if self.shared else {}
        self.tables = {k: t.copy() for k, t in self.committed.items()}
        self.functions = {}
        self.indexes = INDEXES.setdefault(database, {}) if database != ":memory:" else {}
        self.in_transaction = False
        self.row_factory = None
        self.text_factory = str
        self.log = []  # (sql, kind)
        self.commits = 0
        self.uncommitted_writes = 0  # elementary row writes since the last commit
        self.max_uncommitted = 0
        self.commit_points = []  # index into self.log at each commit
        self.write_log = []  # index into self.log of each elementary write
        self.rollbacks = []  # number of buffered elementary writes discarded by each rollback
        self.explicit_txn = False  # an explicit BEGIN is open (matters in autocommit mode)
        self.closed = False
        self.total_changes = 0

    # DB-API -----------------------------------------------------------------
    def cursor(self, factory=None):
        return Cursor(self)

    def execute(self, sql, params=()):
        return Cursor(self).execute(sql, params)

    def executemany(self, sql, seq):
        return Cursor(self).executemany(sql, seq)

    def executescript(self, script):
        raise Unsupported("executescript")

    def commit(self):
        self._commit()

    def rollback(self):
        self.explicit_txn = False
        self.rollbacks.append(self.uncommitted_writes)
        self.tables = {k: t.copy() for k, t in self.committed.items()}
        self.uncommitted_writes = 0
        self.in_transaction = False

    def close(self):
        self.closed = True

    def create_function(self, name, nargs, fn, **kw):
        self.functions[name.lower()] = fn

    def create_aggregate(self, *a, **k):
        pass

    def create_collation(self, *a, **k):
        pass

    def create_window_function(self, *a, **k):
        pass

    def set_progress_handler(self, *a, **k):
        pass

    def enable_load_extension(self, *a, **k):
        pass

    def load_extension(self, *a, **k):
        raise Unsupported("load_extension")

    def set_authorizer(self, *a):
        pass

    def set_trace_callback(self, *a):
        pass

    def __enter__(self):
        return self

    def __exit__(self, et, ev, tb):
        if et is None:
            self.commit()
        else:
            self.rollback()
        return False

    # internals ----------------------------------------------------------------
    def _refresh(self):
        """outside a transaction a connection sees what other connections to the same file committed"""
        if self.shared and not self.in_transaction:
            self.committed = DATABASES[self.database]
            self.tables = {k: t.copy() for k, t in self.committed.items()}

    def _commit(self):
        self.explicit_txn = False
        self.committed = {k: t.copy() for k, t in self.tables.items()}
        if self.shared:
            DATABASES[self.database] = self.committed
        self.commits += 1
        self.uncommitted_writes = 0
        self.in_transaction = False
        self.commit_points.append(len(self.log))

    def crash_image(self):
        """what a fresh connection sees if the process dies now"""
        return {k: t.copy() for k, t in self.committed.items()}

    def _wrote(self, n=1):
        self.uncommitted_writes = self.uncommitted_writes + n  # may be a z3 term (symbolic pre-state)
        self.total_changes += n
        self.write_log.append(len(self.log))
        if self.isolation_level is None and not self.explicit_txn:
            self._commit()
        else:
            self.in_transaction = True


class Cursor:
    arraysize = 1

    def __init__(self, conn):
        self.connection = conn
        self.conn = conn
        self.description = None
        self.lastrowid = None
        self.rowcount = -1
        self._rows = []
        self._pos = 0

    def close(self):
        pass

    def __iter__(self):
        return self

    def __next__(self):
        r = self.fetchone()
        if r is None:
            raise StopIteration
        return r

    def fetchone(self):
        if self._pos < len(self._rows):
            r = self._rows[self._pos]
            self._pos += 1
            return r
        return None

    def fetchall(self):
        r = self._rows[self._pos :]
        self._pos = len(self._rows)
        return r

    def fetchmany(self, n=None):
        n = n or self.arraysize
        r = self._rows[self._pos : self._pos + n]
        self._pos += len(r)
        return r

    def executemany(self, sql, seq):
        tot = 0
        for params in seq:
            self.execute(sql, params)
            tot += max(self.rowcount, 0)
        self.rowcount = tot
        return self

    def execute(self, sql, params=()):
        conn = self.conn
        conn._refresh()
        st, nparams = parse_sql(sql)
        params = list(params) if params is not None else []
        if len(params) != nparams:
            raise ProgrammingError("Incorrect number of bindings supplied. The current statement uses %d, and there are %d supplied." % (nparams, len(params)))
        params = [adapt(p) for p in params]
        conn.log.append((sql, st[0]))
        self._rows, self._pos, self.description, self.rowcount = [], 0, None, -1
        ex = Exec(conn, params)
        kind = st[0]
        if kind == "select":
            names, rows = ex.select(st)
            self.description = tuple((n, None, None, None, None, None, None) for n in names)
            self._rows = [tuple(r) for r in rows]
        elif kind == "insert":
            self.rowcount, last = ex.insert(st)
            if last is not None:
                self.lastrowid = last
        elif kind == "update":
            self.rowcount = ex.update(st)
        elif kind == "delete":
            self.rowcount = ex.delete(st)
        elif kind == "create_table":
            _, name, cols, ine = st
            if name in conn.tables:
                if not ine:
                    raise OperationalError("table %s already exists" % name)
            else:
                conn.tables[name] = Table(name, cols)
                conn.in_transaction = conn.isolation_level is not None
                if conn.isolation_level is None:
                    conn._commit()
        elif kind == "create_index":
            conn.indexes.setdefault(st[2], []).append(list(st[3]))
        elif kind == "drop":
            if st[1] == "TABLE":
                if st[2] in conn.tables:
                    del conn.tables[st[2]]
                elif not st[3]:
                    raise OperationalError("no such table: %s" % st[2])
        elif kind == "pragma":
            _, name, arg = st
            if name == "table_info":
                t = conn.tables.get(arg)
                if t is not None:
                    self._rows = [(i, c["name"], c["type"], int(c["notnull"]), None, int(c["pk"])) for i, c in enumerate(t.cols)]
                self.description = tuple((n, None, None, None, None, None, None) for n in ("cid", "name", "type", "notnull", "dflt_value", "pk"))
            elif name in ("journal_mode",):
                self._rows = [("wal",)]
                self.description = (("journal_mode", None, None, None, None, None, None),)
            elif name in ("index_list", "foreign_key_list", "index_info"):
                self._rows = []
                self.description = ()
            else:
                self._rows = []
        elif kind == "begin":
            if conn.explicit_txn:
                raise OperationalError("cannot start a transaction within a transaction")
            conn.in_transaction = True
            conn.explicit_txn = True
        elif kind == "commit":
            conn._commit()
        elif kind == "rollback":
            conn.rollback()
        else:
            raise Unsupported("statement kind %s" % kind)
        return self


def adapt(p):
    """parameter adaptation as the sqlite3 module does it"""
    from datetime import datetime, date
    import decimal

    if p is None or isinstance(p, (int, float, str, bytes, SInt, SRatio, JsonText)) or is_z3(p):
        return p
    if type(p).__name__ == "SFloat":
        return p
    if isinstance(p, S.SDatetime):
        return p  # text 'YYYY-MM-DD HH:MM:SS.ffffff+HH:MM' kept symbolic (see cmp_dt_text)
    for t, f in _ADAPTERS.items():
        if isinstance(p, t):
            return f(p)
    if isinstance(p, datetime):
        return p.isoformat(" ")
    if isinstance(p, date):
        return p.isoformat()
    if isinstance(p, decimal.Decimal):
        return str(p)
    raise InterfaceError("Error binding parameter: type %r is not supported" % type(p).__name__)


class Exec:
    def __init__(self, conn, params):
        self.conn = conn
        self.params = params

    def table(self, name):
        t = self.conn.tables.get(name)
        if t is None:
            raise OperationalError("no such table: %s" % name)
        return t

    # rows are evaluated in scopes: list of (alias, table_or_None, rowdict)
    def col(self, scopes, tname, cname):
        for alias, table, row in reversed(scopes):
            if tname is not None and tname != alias and not (table is not None and tname == table.name):
                continue
            if cname in row:
                return row[cname]
            if table is not None:
                if cname.lower() in ("rowid", "oid", "_rowid_"):
                    return row["__rowid__"]
                for k in row:
                    if k.lower() == cname.lower():
                        return row[k]
        raise OperationalError("no such column: %s%s" % (tname + "." if tname else "", cname))

    def nocase(self, node, scopes):
        """is this expression a column declared COLLATE NOCASE?"""
        if node[0] != "col":
            return False
        for alias, table, row in reversed(scopes):
            if table is None or (node[1] is not None and node[1] != alias and node[1] != table.name):
                continue
            for cd in table.cols:
                if cd["name"] == node[2]:
                    return cd.get("collate") == "NOCASE"
        return False

    def ev(self, e, scopes):
        k = e[0]
        if k == "const":
            return e[1]
        if k == "param":
            return self.params[e[1]]
        if k == "col":
            return self.col(scopes, e[1], e[2])
        if k == "case":
            # the first arm whose WHEN holds (a NULL comparison does not hold)
            base = self.ev(e[1], scopes) if e[1] is not None else None
            for w, r in e[2]:
                cond = self.ev(w, scopes)
                if e[1] is not None:
                    cond = None if (base is None or cond is None) else cmp_values("=", base, cond)
                if cond is not None and truth(cond):
                    return self.ev(r, scopes)
            return self.ev(e[3], scopes)
        if k == "cmp":
            l, r = self.ev(e[2], scopes), self.ev(e[3], scopes)
            if type(l) is str and type(r) is str and self.nocase(e[2], scopes) or type(l) is str and type(r) is str and self.nocase(e[3], scopes):
                l, r = l.lower(), r.lower()
            res = cmp_values(e[1], l, r)
            if e[1] in ("<", "<=", ">", ">=") and {e[2][0], e[3][0]} == {"param", "col"}:
                p_ = l if e[2][0] == "param" else r
                if isinstance(p_, SRatio) and p_.floaty and l is not None and r is not None:
                    # the parameter is a Python float computed as seconds * 1e6: it can be off the exact
                    # microsecond count by a fraction of a microsecond, so at exact equality with the
                    # stored cell the comparison may go either way
                    eq = cmp_values("=", l, r)
                    key = ("float_edge", e[1], str(eq))
                    free = E.ENG.declared.get(key)
                    if free is None:
                        # deterministic per (cell, parameter value): the same float meets the same cell
                        free = z3.Bool(E.ENG.fresh_name("float_edge"))
                        E.ENG.declared[key] = free
                    E.ENG.noise_used = True
                    if not isinstance(eq, bool):
                        E.ENG.noise_sites.append(eq)
                    res = z3.If(eq, free, res) if not isinstance(eq, bool) else (free if eq else res)
            return res
        if k == "and":
            return and3(self.ev(e[1], scopes), self.ev(e[2], scopes))
        if k == "or":
            return or3(self.ev(e[1], scopes), self.ev(e[2], scopes))
        if k == "not":
            v = self.ev(e[1], scopes)
            return None if v is None else Not(v)
        if k == "is":
            l, r = self.ev(e[2], scopes), self.ev(e[3], scopes)
            if l is None or r is None:
                res = l is None and r is None
            else:
                res = cmp_values("=", l, r)
            return Not(res) if e[1] else res
        if k == "neg":
            v = self.ev(e[1], scopes)
            return None if v is None else -v
        if k == "bin":
            l, r = self.ev(e[2], scopes), self.ev(e[3], scopes)
            if l is None or r is None:
                return None
            op = e[1]
            if op == "+":
                return arith(l, r, "+")
            if op == "-":
                return arith(l, r, "-")
            if op == "*":
                return arith(l, r, "*")
            if op == "/":
                return arith(l, r, "/")
            raise Unsupported("SQL operator %s" % op)
        if k == "subq":
            names, rows = self.select(e[1], scopes)
            if not rows:
                return None
            return rows[0][0]
        if k == "in_sub":
            l = self.ev(e[2], scopes)
            names, rows = self.select(e[3], scopes)
            if l is None:
                return None
            res = Or([cmp_values("=", l, r[0]) for r in rows if r[0] is not None])
            return Not(res) if e[1] else res
        if k == "in_list":
            l = self.ev(e[2], scopes)
            if l is None:
                return None
            vals = [self.ev(i, scopes) for i in e[3]]
            res = Or([cmp_values("=", l, v) for v in vals if v is not None])
            return Not(res) if e[1] else res
        if k == "call":
            return self.call(e[1], e[2], scopes)
        raise Unsupported("SQL expression %r" % (e,))

    def call(self, name, args, scopes):
        if args == "*":
            raise Unsupported("aggregate %s(*) outside a select list" % name)
        vals = [self.ev(a, scopes) for a in args]
        if name in ("julianday", "strftime", "datetime", "date", "time", "unixepoch"):
            return date_function(name, vals)
        if name in self.conn.functions:
            return self.conn.functions[name](*vals)
        if name == "coalesce":
            for v in vals:
                if v is not None:
                    return v
            return None
        if name in ("lower", "upper") and isinstance(vals[0], str):
            return getattr(vals[0], name)()
        raise Unsupported("SQL function %s" % name)

    def source_rows(self, src, outer):
        """-> list of scope entries for each row of the FROM source"""
        if src is None:
            return [None]
        if src[0] == "table":
            t = self.table(src[1])
            return [(src[2], t, r) for r in t.rows]
        if src[0] == "sub":
            names, rows = self.select(src[1], outer)
            return [(src[2], None, dict(zip(names, r))) for r in rows]
        raise Unsupported("FROM %r" % (src,))

    def select(self, st, outer=()):
        _, cols, src, where, order, limit, offset = st
        outer = list(outer)
        entries = self.source_rows(src, outer)
        kept = []
        for ent in entries:
            scopes = outer + ([ent] if ent is not None else [])
            if where is None or truth(self.ev(where, scopes)):
                kept.append(scopes)
        # aggregates?
        aggs = [c for c in cols if c[0] == "expr" and c[1][0] == "call" and c[1][1] in ("count", "max", "min", "sum")]
        if aggs:
            if len(aggs) != len(cols):
                raise Unsupported("mixed aggregate / plain select list")
            out = []
            names = []
            for c in cols:
                fn, args = c[1][1], c[1][2]
                names.append(c[2] or "%s(...)" % fn)
                if fn == "count":
                    if args == "*" or args[0][0] == "const":
                        out.append(len(kept))
                    else:
                        out.append(sum(1 for sc in kept if self.ev(args[0], sc) is not None))
                elif fn in ("max", "min"):
                    vals = [self.ev(args[0], sc) for sc in kept]
                    vals = [v for v in vals if v is not None]
                    if not vals:
                        out.append(None)
                    else:
                        best = vals[0]
                        for v in vals[1:]:
                            c2 = cmp_values(">" if fn == "max" else "<", v, best)
                            if truth(c2):
                                best = v
                        out.append(best)
                else:
                    raise Unsupported("aggregate %s" % fn)
            rows = [out]
            if limit is not None:
                lim = self.ev(limit, outer)
                if isinstance(lim, int) and lim == 0:
                    rows = []
            return names, rows
        # order
        if order:
            keys = [[self.ev(e, sc) for e, _ in order] for sc in kept]
            idx = list(range(len(kept)))

            def before(i, j):
                # strict "i sorts before j" by the ORDER BY keys; ties keep source order (stable)
                for k, (_, desc) in enumerate(order):
                    a, b = keys[i][k], keys[j][k]
                    if a is None or b is None:
                        if a is None and b is None:
                            continue
                        first_null = a is None
                        return first_null != desc  # NULLs first in ASC, last in DESC
                    if truth(cmp_values("<" if not desc else ">", a, b)):
                        return True
                    if truth(cmp_values(">" if not desc else "<", a, b)):
                        return False
                return False

            # insertion sort, stable with respect to the scan order; a leading DESC term is served by a
            # backward index scan in SQLite, so ties come out in descending rowid order (observed with
            # the real library by tools/dualrun.py; unspecified by SQL — violations are replayed on the
            # real library before they are reported)
            if order[0][1] and self.backward_index_scan(src, where, order):
                idx = idx[::-1]
            res = []
            for i in idx:
                pos = len(res)
                while pos > 0 and before(i, res[pos - 1]):
                    pos -= 1
                res.insert(pos, i)
            kept = [kept[i] for i in res]
        if offset is not None:
            off = self.ev(offset, outer)
            off = concrete_int(off, "OFFSET")
            kept = kept[off:]
        if limit is not None:
            lim = concrete_int(self.ev(limit, outer), "LIMIT")
            if lim >= 0:
                kept = kept[:lim]
        names = []
        rows = []
        first = True
        for sc in kept or [None]:
            row = []
            for c in cols:
                if c[0] == "star":
                    ent = (sc[-1] if sc else None)
                    if ent is None:
                        if src and src[0] == "table":
                            t = self.table(src[1])
                            if first:
                                names += t.colnames
                        continue
                    alias, table, r = ent
                    cn = table.colnames if table is not None else list(r.keys())
                    if first:
                        names += cn
                    row += [r[n] for n in cn]
                else:
                    if first:
                        e = c[1]
                        names.append(c[2] or (e[2] if e[0] == "col" else "expr"))
                    if sc is not None:
                        row.append(self.ev(c[1], sc))
            first = False
            if sc is not None:
                rows.append(row)
        return names, rows

    def backward_index_scan(self, src, where, order):
        """does an index (equality-filtered columns..., ORDER BY column) exist?  Then SQLite serves
        ORDER BY col DESC by scanning it backwards (ties in descending rowid order); otherwise it
        sorts the scan output with a stable sorter (ties in scan order)."""
        if src is None or src[0] != "table" or order[0][0][0] != "col":
            return False
        ocol = order[0][0][2]
        eqcols = []

        def walk(e):
            if e is None:
                return
            if e[0] == "and":
                walk(e[1])
                walk(e[2])
            elif e[0] == "cmp" and e[1] == "=" and e[2][0] == "col":
                eqcols.append(e[2][2])

        walk(where)
        for ix in self.conn.indexes.get(src[1], []):
            if ix and ix[-1] == ocol and set(ix[:-1]) <= set(eqcols) and len(ix) > 1:
                return True
        return False

    # DML ---------------------------------------------------------------------
    def check_constraints(self, t, row, skip=None):
        for c in t.cols:
            v = row.get(c["name"])
            if c["notnull"] and v is None and not (c["pk"] and t.pk == c["name"]):
                raise IntegrityError("NOT NULL constraint failed: %s.%s" % (t.name, c["name"]))
            if (c["unique"] or (c["pk"] and t.pk != c["name"])) and v is not None:
                for other in t.rows:
                    if other is skip:
                        continue
                    a_, b_ = other[c["name"]], v
                    if c.get("collate") == "NOCASE" and type(a_) is str and type(b_) is str:
                        a_, b_ = a_.lower(), b_.lower()  # ASCII case folding of the NOCASE collation (approximated by lower())
                    elif c.get("collate") not in (None, "BINARY", "NOCASE"):
                        raise Unsupported("collation %s" % c.get("collate"))
                    if truth(cmp_values("=", a_, b_)):
                        raise IntegrityError("UNIQUE constraint failed: %s.%s" % (t.name, c["name"]))

    def new_rowid(self, t):
        if t.autoinc:
            # AUTOINCREMENT: the recorded sequence value is never below a rowid of the table (it is raised by
            # every insert, explicit rowids included; loaded pre-states assume it), so the next id is seq + 1
            mx = t.seq
        else:
            mx = 0
            for r in t.rows:
                mx = zmax(mx, r["__rowid__"])
        nid = mx + 1
        if is_z3(nid):
            nid = S.mkint(nid)
        return nid

    def insert(self, st):
        _, tname, cols, rows, upsert = st
        t = self.table(tname)
        last = None
        n = 0
        for vals in rows:
            row = {c: None for c in t.colnames}
            for c, e in zip(cols, vals):
                if c not in row:
                    raise OperationalError("table %s has no column named %s" % (tname, c))
                row[c] = coerce(self.ev(e, []), next(cd for cd in t.cols if cd["name"] == c))
            for cd in t.cols:
                if row[cd["name"]] is None and cd["default"] is not None and cd["name"] not in cols:
                    row[cd["name"]] = self.ev(cd["default"], [])
            if t.pk is not None and row[t.pk] is not None:
                rid = row[t.pk]
                conflict = None
                for other in t.rows:
                    if truth(cmp_values("=", other["__rowid__"], rid)):
                        conflict = other
                        break
                if conflict is not None:
                    if upsert is None or (upsert[1] is not None and upsert[1] != [t.pk]):
                        raise IntegrityError("UNIQUE constraint failed: %s.%s" % (t.name, t.pk))
                    if upsert[0] == "update":
                        sc = [(tname, t, conflict), ("excluded", None, dict(row))]
                        if upsert[3] is None or truth(self.ev(upsert[3], sc)):
                            newvals = {c: coerce(self.ev(e, sc), next(cd for cd in t.cols if cd["name"] == c)) for c, e in upsert[2]}
                            conflict.update(newvals)
                            self.conn._wrote(1)
                            n += 1
                    last = conflict["__rowid__"]
                    continue
                fresh_id = False
            else:
                rid = self.new_rowid(t)
                fresh_id = True
                if t.pk is not None:
                    row[t.pk] = rid
            row["__rowid__"] = rid
            self.check_constraints(t, row)
            if t.autoinc:
                t.seq = _zi(rid) if fresh_id else zmax(t.seq, _zi(rid))
            t.rows.append(row)
            last = rid
            n += 1
            self.conn._wrote(1)
        return n, last

    def update(self, st):
        _, tname, sets, where = st
        t = self.table(tname)
        targets = []
        for r in t.rows:
            sc = [(tname, t, r)]
            if where is None or truth(self.ev(where, sc)):
                targets.append(r)
        for r in targets:
            sc = [(tname, t, r)]
            newvals = {}
            for c, e in sets:
                if c not in r:
                    raise OperationalError("no such column: %s" % c)
                newvals[c] = coerce(self.ev(e, sc), next(cd for cd in t.cols if cd["name"] == c))
            r.update(newvals)
            if t.pk in newvals:
                r["__rowid__"] = newvals[t.pk]
            self.check_constraints(t, r, skip=r)
            self.conn._wrote(1)
        if not targets and self.conn.isolation_level is None:
            pass
        return len(targets)

    def delete(self, st):
        _, tname, where = st
        t = self.table(tname)
        keep, gone = [], 0
        for r in t.rows:
            sc = [(tname, t, r)]
            if where is None or truth(self.ev(where, sc)):
                gone += 1
            else:
                keep.append(r)
        t.rows = keep
        if gone:
            self.conn._wrote(gone)
        return gone


def concrete_int(v, what):
    if isinstance(v, int):
        return v
    if isinstance(v, SInt):
        return v.__index__()
    raise Unsupported("%s %r" % (what, v))


_NUMERIC_TEXT = re.compile(r"^[ \t\n\r\f]*[+-]?(\d+\.?\d*|\.\d+)([eE][+-]?\d+)?[ \t\n\r\f]*$", re.ASCII)


def coerce(v, coldef):
    """column affinity (https://sqlite.org/datatype3.html): INTEGER / REAL / NUMERIC columns turn text
    that looks like a number into a number; numbers stay numbers everywhere except in TEXT columns,
    where they are rendered as text.  Shadows are numeric and kept as they are."""
    t = coldef["type"]
    if "INT" in t:
        aff = "INTEGER"
    elif "CHAR" in t or "CLOB" in t or "TEXT" in t:
        aff = "TEXT"
    elif t == "" or "BLOB" in t:
        aff = "BLOB"
    elif "REAL" in t or "FLOA" in t or "DOUB" in t:
        aff = "REAL"
    else:
        aff = "NUMERIC"
    if aff in ("INTEGER", "REAL", "NUMERIC") and isinstance(v, str) and type(v) is str:
        if not _NUMERIC_TEXT.match(v):
            return v
        f = float(v)
        if f != f or f in (float("inf"), float("-inf")):
            return f
        if f == int(f) and abs(f) < 2**63 and not any(c in v for c in "eE") or (f == int(f) and aff != "REAL"):
            return int(f) if aff != "REAL" else f
        return f
    if aff == "TEXT" and type(v) in (int, float):
        return repr(v) if isinstance(v, float) else str(v)
    return v


_REAL_ENGINE = []


def real_scalar(sql, params):
    """evaluate a built-in SQL scalar function on concrete arguments with the real SQLite library"""
    if not _REAL_ENGINE:
        _REAL_ENGINE.append(_real.connect(":memory:"))
    return _REAL_ENGINE[0].execute(sql, params).fetchone()[0]


class SymJulian:
    """julianday(<symbolic datetime text>) and the linear arithmetic peewee's date math applies to it:
    value = scale * (julianday(dt) - 2440587.5 * [shifted]) + add   — tracked structurally"""

    def __init__(self, dt, shifted=False, scaled=False, add=None):
        self.dt, self.shifted, self.scaled, self.add = dt, shifted, scaled, add

    def __sub__(self, o):
        if not self.shifted and not self.scaled and o == 2440587.5:
            return SymJulian(self.dt, True, False, None)
        raise Unsupported("julianday arithmetic: - %r" % (o,))

    def __mul__(self, o):
        if self.shifted and not self.scaled and o in (86400.0, 86400):
            return SymJulian(self.dt, True, True, None)
        raise Unsupported("julianday arithmetic: * %r" % (o,))

    def __add__(self, o):
        if self.shifted and self.scaled and self.add is None and is_num(o):
            return SymJulian(self.dt, True, True, o)
        raise Unsupported("julianday arithmetic: + %r" % (o,))

    __radd__ = __add__
    __rmul__ = __mul__


class SymEndText:
    """strftime('%Y-%m-%d %H:%M:%f+00:00', unixepoch-seconds(dt) + duration, 'unixepoch'): the text of
    the end instant rendered to the millisecond (C code in SQLite; contract: within 1 ms of dt + duration)"""

    def __init__(self, dt, dur):
        self.dt, self.dur = dt, dur


def date_function(name, vals):
    if all(v is None or type(v) in (int, float, str) for v in vals):
        return real_scalar("SELECT %s(%s)" % (name, ",".join("?" * len(vals))), vals)
    if name == "julianday" and len(vals) == 1 and isinstance(vals[0], S.SDatetime):
        return SymJulian(vals[0])
    if name == "strftime" and len(vals) == 3 and isinstance(vals[1], SymJulian) and vals[2] == "unixepoch" and vals[0] == "%Y-%m-%d %H:%M:%f+00:00":
        j = vals[1]
        if j.shifted and j.scaled:
            return SymEndText(j.dt, j.add if j.add is not None else 0)
    raise Unsupported("SQL date function %s%r" % (name, tuple(type(v).__name__ for v in vals)))


def cmp_endtext(op, a, b):
    """<param datetime text> <= strftime(end) (or mirrored).  Contract of the C date code plus text
    comparison of differently formatted fractions: the answer is certain once the instants differ by
    more than 1 ms, arbitrary inside that band."""
    if isinstance(a, SymEndText):
        flip = {"<": ">", "<=": ">=", ">": "<", ">=": "<=", "=": "=", "!=": "!="}
        return cmp_endtext(flip[op], b, a)
    if not isinstance(b, SymEndText) or not (isinstance(a, S.SDatetime) or hasattr(a, "utcoffset")):
        raise Unsupported("comparison with rendered end text: %r %s %r" % (type(a), op, type(b)))
    if op not in ("<=", "<", ">", ">="):
        raise Unsupported("equality with rendered end text")
    off = S._off_of(a)
    if is_z3(off) or off != 0:
        raise Unsupported("window edge not normalised to UTC compared with rendered end text")
    start = S.dt_us(a)
    pn, pd = num_parts(b.dur)
    end = S.dt_us(b.dt) * pd + pn * 1000000  # microseconds * pd  (duration is in seconds)
    start_s = start * pd
    band = 1000 * pd
    key = ("strftime_edge", str(end), str(start_s))
    free = E.ENG.declared.get(key)
    if free is None:
        # deterministic per (row, window edge): the same text comparison gives the same answer in every query
        free = z3.Bool(E.ENG.fresh_name("strftime_edge"))
        E.ENG.declared[key] = free
    inband = z3.And(end < start_s + band, end >= start_s - band)
    E.ENG.noise_used = True
    E.ENG.noise_sites.append(inband)
    le = z3.If(end >= start_s + band, True, z3.If(end < start_s - band, False, free))  # a <= rendered(b)
    if op in ("<=", "<"):
        return le
    return z3.Not(le)


def arith(l, r, op):
    if isinstance(l, SymJulian) or isinstance(r, SymJulian):
        if op == "+":
            return l + r
        if op == "-":
            return l - r
        if op == "*":
            return l * r
        raise Unsupported("julianday arithmetic %s" % op)
    if op == "+":
        return l + r
    if op == "-":
        return l - r
    if op == "*":
        return l * r
    if op == "/":
        return l / r
    raise Unsupported(op)


def connect(database=":memory:", *a, **kw):
    c = Connection(database, *a, **kw)
    CONNECTIONS.append(c)
    return c


CONNECTIONS = []
INDEXES = {}
DATABASES = {}  # file path -> committed tables (shared between connections to the same file)


def reset():
    CONNECTIONS.clear()
    DATABASES.clear()
    INDEXES.clear()
