"""IEEE-754 double arithmetic as *rounded reals* (DESIGN §4).

An SFloat is a z3 Real term denoting the exact value of a double, together
with concrete bounds [lo, hi] (Fractions, lo >= 0) used to pick the candidate
binades.  Every operation computes the exact real result r and introduces a
fresh x constrained by the exact characterisation of "x is a double nearest to
r":   exists e, n:  x = n*2^(e-52),  2^52 <= n <= 2^53,  |x - r| <= 2^(e-53)
(zero is exact; with TIES_EVEN an exact tie keeps the even significand, otherwise it may
go either way).  Either way this over-approximates round-to-nearest-even on normal numbers, so `unsat` is sound for the real
semantics; `sat` is a candidate that must replay natively.

Only non-negative values are supported (instants since 1970, durations >= 0);
anything else raises Unsupported.
"""
import math
from fractions import Fraction

import z3

from . import engine as E
from .engine import Unsupported
from . import shadows as S

TIES_EVEN = False  # False: an exact tie may round either way (coarser, sound over-approximation, much cheaper for z3)
USE_MS_FLOOR_LEMMA = True  # see SInt.__truediv__; C13 proves the lemma with this switched off
IEEE = False  # module switch: when True, int/int true division, timestamp(), total_seconds() produce SFloat


def Q(fr):
    fr = Fraction(fr)
    return z3.RealVal("%d/%d" % (fr.numerator, fr.denominator))


def flog2(fr):
    """floor(log2(fr)) for a positive Fraction"""
    fr = Fraction(fr)
    assert fr > 0
    e = fr.numerator.bit_length() - fr.denominator.bit_length()
    if Fraction(2) ** e > fr:
        e -= 1
    elif Fraction(2) ** (e + 1) <= fr:
        e += 1
    return e


STATS = dict(roundings=0, max_cases=0)


MAX_GRID_BINADES = 24


def RN(r, lo, hi, minpos=None, name="fp", grid=None):
    """fresh double nearest to the exact real term r, known to satisfy lo <= r <= hi"""
    lo, hi = Fraction(lo), Fraction(hi)
    if lo < 0:
        raise Unsupported("negative floating point value")
    STATS["roundings"] += 1
    if hi == 0:
        return SFloat(Q(0), 0, 0)
    x = z3.Real(E.ENG.fresh_name(name))
    n = z3.Int(E.ENG.fresh_name(name + "_n"))
    m2 = z3.Int(E.ENG.fresh_name(name + "_h"))  # n == 2*m2 witnesses an even significand (linear, no mod)
    cases = []
    pos_lo = lo
    if lo == 0:
        cases.append(z3.And(r == 0, x == 0))
        if minpos is None:
            raise Unsupported("rounding of a value whose smallest positive magnitude is unknown")
        pos_lo = Fraction(minpos)
    e_lo, e_hi = flog2(pos_lo), flog2(hi)
    if e_lo < -1000 or e_hi > 1000:
        raise Unsupported("exponent out of the normal range")
    if grid is None:
        grid = (e_hi - e_lo + 1) <= MAX_GRID_BINADES
    if not grid:
        # flat encoding: absolute error of round-to-nearest is at most half an ulp of the largest
        # binade; the result is not tied to the grid (coarser, still an over-approximation)
        STATS["flat"] = STATS.get("flat", 0) + 1
        half = Fraction(2) ** (e_hi - 53)
        E.ENG.assume(z3.And(x - r <= Q(half), r - x <= Q(half), x >= 0, z3.Implies(r == 0, x == 0)))
        return SFloat(x, max(Fraction(0), lo - half), hi + half, None)
    for e in range(e_lo, e_hi + 1):
        ulp = Fraction(2) ** (e - 52)
        half = Q(ulp / 2)
        # round to nearest, ties to even (an exact tie keeps the even significand)
        cases.append(z3.And(x == z3.ToReal(n) * Q(ulp), n >= 2**52, n <= 2**53, x - r <= half, r - x <= half,
                            z3.Or(z3.And(x - r < half, r - x < half), n == 2 * m2) if TIES_EVEN else True))
    STATS["max_cases"] = max(STATS["max_cases"], len(cases))
    # outside the window derived from the bounds: unconstrained (sound over-approximation)
    # (rounding is monotone, so below the window the result stays in [0, 2^e_lo], above it stays above)
    below = z3.And(r > 0, r < Q(Fraction(2) ** e_lo), x >= 0, x <= Q(Fraction(2) ** e_lo))
    above = z3.And(r >= Q(Fraction(2) ** (e_hi + 1)), x >= Q(Fraction(2) ** (e_hi + 1)))
    E.ENG.assume(z3.Or(below, above, r < 0, *cases))
    # rounding is monotone: the result stays within the rounded bounds
    nlo = Fraction(float(lo)) if lo > 0 else Fraction(0)
    nhi = Fraction(float(hi))
    nlo = min(nlo, lo) * (1 - Fraction(1, 2**52)) if nlo > 0 else nlo
    nhi = max(nhi, hi) * (1 + Fraction(1, 2**52))
    mp = None
    if minpos is not None:
        mp = Fraction(minpos) * (1 - Fraction(1, 2**52))
    return SFloat(x, nlo, nhi, mp)


def exact(term, lo, hi, minpos=None):
    """an SFloat whose value is exactly `term` (caller guarantees it is representable)"""
    return SFloat(term, Fraction(lo), Fraction(hi), minpos)


class SFloat:
    def __init__(self, r, lo, hi, minpos=None):
        self.r = r
        self.lo = Fraction(lo)
        self.hi = Fraction(hi)
        self.minpos = minpos

    @staticmethod
    def of(v):
        if isinstance(v, SFloat):
            return v
        if isinstance(v, bool):
            raise TypeError
        if isinstance(v, int):
            if abs(v) > 2**53:
                raise Unsupported("integer constant beyond 2^53 in float arithmetic")
            return SFloat(Q(v), v, v, abs(v) if v else None)
        if isinstance(v, float):
            f = Fraction(v)
            return SFloat(Q(f), f, f, abs(f) if f else None)
        if isinstance(v, S.SInt):
            lo, hi = int_bounds(v.z)
            if max(abs(lo), abs(hi)) > 2**53:
                raise Unsupported("symbolic integer beyond 2^53 converted to float")
            return SFloat(z3.ToReal(v.z), lo, hi, 1)
        raise TypeError("not a number: %r" % type(v))

    def __mul__(self, o):
        try:
            o = SFloat.of(o)
        except TypeError:
            return NotImplemented
        if o.lo != o.hi and self.lo != self.hi:
            raise Unsupported("symbolic * symbolic float multiplication")
        mp = None
        if self.minpos is not None and o.minpos is not None:
            mp = Fraction(self.minpos) * Fraction(o.minpos)
        return RN(self.r * o.r, self.lo * o.lo, self.hi * o.hi, mp, "mul")

    __rmul__ = __mul__

    def __truediv__(self, o):
        try:
            o = SFloat.of(o)
        except TypeError:
            return NotImplemented
        if o.lo != o.hi or o.lo <= 0:
            raise Unsupported("float division by a non-constant or non-positive value")
        mp = Fraction(self.minpos) / o.lo if self.minpos is not None else None
        return RN(self.r / o.r, self.lo / o.lo, self.hi / o.lo, mp, "div")

    def __add__(self, o):
        try:
            o = SFloat.of(o)
        except TypeError:
            return NotImplemented
        if o.lo == o.hi == 0:
            return self  # x + 0.0 is exact
        if self.lo == self.hi == 0:
            return o
        mp = None
        if self.minpos is not None and o.minpos is not None:
            mp = min(Fraction(self.minpos), Fraction(o.minpos))  # both non-negative: a positive sum is at least the smaller positive part
        return RN(self.r + o.r, self.lo + o.lo, self.hi + o.hi, mp, "add")

    __radd__ = __add__

    def _cmp(self, o, op):
        try:
            o = SFloat.of(o)
        except TypeError:
            return NotImplemented
        return S.mkbool(op(self.r, o.r))

    def __lt__(self, o):
        return self._cmp(o, lambda a, b: a < b)

    def __le__(self, o):
        return self._cmp(o, lambda a, b: a <= b)

    def __gt__(self, o):
        return self._cmp(o, lambda a, b: a > b)

    def __ge__(self, o):
        return self._cmp(o, lambda a, b: a >= b)

    def __eq__(self, o):
        r = self._cmp(o, lambda a, b: a == b)
        return False if r is NotImplemented else r

    def __ne__(self, o):
        r = self._cmp(o, lambda a, b: a != b)
        return True if r is NotImplemented else r

    def __hash__(self):
        return 0xF10A7

    def trunc(self):
        """int(x) for x >= 0"""
        if self.lo < 0:
            raise Unsupported("trunc of possibly negative float")
        n = z3.Int(E.ENG.fresh_name("trunc"))
        E.ENG.assume(z3.And(z3.ToReal(n) <= self.r, self.r < z3.ToReal(n) + 1))
        return n

    def split(self):
        """modf(x) for x >= 0: (integer part as z3 Int, fraction as exact SFloat) — modf is exact"""
        n = self.trunc()
        frac = self.r - z3.ToReal(n)
        # the fraction of a double in binade e is a multiple of 2^(e-52); its smallest positive value:
        mp = None
        if self.hi > 0:
            mp = Fraction(2) ** (flog2(self.hi) - 52) if self.hi >= 1 else self.minpos
        return n, SFloat(frac, 0, min(Fraction(1), self.hi), mp)

    def __int__(self):
        raise Unsupported("int() of a symbolic float through the builtin")

    def __float__(self):
        raise Unsupported("float() of a symbolic float")

    def __deepcopy__(self, memo):
        return self

    def __repr__(self):
        return "SFloat(%s in [%s, %s])" % (self.r, float(self.lo), float(self.hi))

    def __format__(self, spec):
        return repr(self)


import numbers  # noqa: E402

numbers.Real.register(SFloat)

BOUNDS = {}  # name of z3 Int constant -> (lo, hi)


def declare_bounds(name, lo, hi):
    BOUNDS[name] = (lo, hi)


def int_bounds(t):
    """interval of a z3 Int term built from declared constants with + - * const, div / mod const"""
    if isinstance(t, int):
        return t, t
    if z3.is_int_value(t):
        v = t.as_long()
        return v, v
    k = t.decl().kind()
    ch = t.children()
    if k == z3.Z3_OP_UNINTERPRETED and not ch:
        nm = t.decl().name()
        if nm not in BOUNDS:
            raise Unsupported("no bounds declared for %s" % nm)
        return BOUNDS[nm]
    if k == z3.Z3_OP_ADD:
        bs = [int_bounds(c) for c in ch]
        return sum(b[0] for b in bs), sum(b[1] for b in bs)
    if k == z3.Z3_OP_SUB:
        lo, hi = int_bounds(ch[0])
        for c in ch[1:]:
            a, b = int_bounds(c)
            lo, hi = lo - b, hi - a
        return lo, hi
    if k == z3.Z3_OP_UMINUS:
        a, b = int_bounds(ch[0])
        return -b, -a
    if k == z3.Z3_OP_MUL:
        lo, hi = 1, 1
        for c in ch:
            a, b = int_bounds(c)
            cands = [lo * a, lo * b, hi * a, hi * b]
            lo, hi = min(cands), max(cands)
        return lo, hi
    if k == z3.Z3_OP_MOD:
        a, b = int_bounds(ch[1])
        if a == b and a > 0:
            return 0, a - 1
    if k == z3.Z3_OP_IDIV:
        a, b = int_bounds(ch[1])
        if a == b and a > 0:
            lo, hi = int_bounds(ch[0])
            return lo // a, hi // a
    if k == z3.Z3_OP_ITE:
        a = int_bounds(ch[1])
        b = int_bounds(ch[2])
        return min(a[0], b[0]), max(a[1], b[1])
    raise Unsupported("no interval rule for %s" % t.decl())


# ---- documented algorithms of the C library functions, on SFloat -----------------
def int_div_const(n_term, d):
    """CPython int / int true division: correctly rounded quotient"""
    lo, hi = int_bounds(n_term)
    if lo < 0:
        raise Unsupported("true division of a possibly negative integer")
    return RN(z3.ToReal(n_term) / Q(d), Fraction(lo, d), Fraction(hi, d), Fraction(1, d), "idiv")


def round_half_even_any(g):
    """nearest integer to SFloat g; ties may go either way (over-approximation of half-even)"""
    n = z3.Int(E.ENG.fresh_name("rhe"))
    m2 = z3.Int(E.ENG.fresh_name("rhe_h"))
    h = Q(Fraction(1, 2))
    E.ENG.assume(z3.And(z3.ToReal(n) - g.r <= h, g.r - z3.ToReal(n) <= h, z3.Or(z3.And(z3.ToReal(n) - g.r < h, g.r - z3.ToReal(n) < h), n == 2 * m2) if TIES_EVEN else True))
    return n


def seconds_to_us(f):
    """microseconds of timedelta(seconds=f) / datetime.fromtimestamp(f): modf, one rounded product, round to nearest"""
    ip, frac = f.split()
    g = frac * 1000000
    return ip * 1000000 + round_half_even_any(g)
