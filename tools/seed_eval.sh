#!/bin/bash
# tools/seed_eval.sh <PROP> <seed-src-dir> <seed-name> [tier]
# 1. confirm the four facts in a scratch worktree  2. keep under /verif/seeded/<name>  3. run the check against it
set -u
PROP=$1; SRC=$2; NAME=$3; TIER=${4:-quick}
SV=/tmp/sv_$$
git -C /repo worktree add -q $SV HEAD || exit 3
cp $SRC/demo.py $SV/_demo.py
( cd $SV && PYTHONPATH=$SV /venv/bin/python _demo.py >/tmp/sv_$$.clean 2>&1 ); CLEAN=$?
( cd $SV && git apply $SRC/patch.diff ) ; APPLY=$?
( cd $SV && PYTHONPATH=$SV /venv/bin/python -m pytest -q -p no:cacheprovider -x >/tmp/sv_$$.tests 2>&1 ); TESTS=$?
( cd $SV && PYTHONPATH=$SV /venv/bin/python _demo.py >/tmp/sv_$$.mut 2>&1 ); MUT=$?
TESTSUM=$(tail -1 /tmp/sv_$$.tests)
echo "apply=$APPLY tests_exit=$TESTS ($TESTSUM) demo_clean_exit=$CLEAN demo_mutated_exit=$MUT"
if [ $APPLY -ne 0 ] || [ $TESTS -ne 0 ] || [ $CLEAN -ne 0 ] || [ $MUT -eq 0 ]; then echo "SEED REJECTED"; git -C /repo worktree remove --force $SV; rm -f /tmp/sv_$$.*; exit 4; fi
D=/verif/seeded/$NAME; mkdir -p $D
cp $SRC/patch.diff $SRC/demo.py $D/; [ -f $SRC/notes.txt ] && cp $SRC/notes.txt $D/
# 3. the check against the seeded change: run on the scratch worktree (AW_REPO), /repo itself is not touched
rm -f $SV/_demo.py
( cd /verif && AW_REPO=$SV timeout 3600 ./check $PROP --tier $TIER > /tmp/sv_$$.check 2>&1 ); CK=$?
git -C /repo worktree remove --force $SV
cp /tmp/sv_$$.check $D/check_output.txt
NV=$(grep -c '^VIOLATION' /tmp/sv_$$.check)
FIRST=$(grep -m1 -A1 '^VIOLATION' /tmp/sv_$$.check | tail -1 | cut -c1-300)
/venv/bin/python - "$D" "$PROP" "$NAME" "$TIER" "$CK" "$NV" "$TESTSUM" "$MUT" "$FIRST" <<'PY'
import json,sys,os
d,prop,name,tier,ck,nv,tests,mut,first=sys.argv[1:]
notes=open(os.path.join(d,'notes.txt')).read() if os.path.exists(os.path.join(d,'notes.txt')) else ''
meta=dict(property=prop,name=name,needs_to_manifest=notes.strip(),
  confirmed=dict(patch_applies=True,existing_suite=tests,demo_on_clean_tree="exit 0 (PASS)",demo_with_change="exit %s (FAIL)"%mut,
                 how="scratch worktree of /repo HEAD under /tmp, removed afterwards (tools/seed_eval.sh)"),
  check=dict(cmd="./check %s --tier %s"%(prop,tier),exit=int(ck),violation_lines=int(nv),first=first,detected=(int(ck)==1 and int(nv)>0)))
json.dump(meta,open(os.path.join(d,'meta.json'),'w'),indent=1)
print("check exit=%s violations=%s detected=%s"%(ck,nv,meta['check']['detected']))
PY
rm -f /tmp/sv_$$.*
