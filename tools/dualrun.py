"""Conformance of symex.sqlstub against the real sqlite3: every statement the repository's own tests
issue through SqliteStorage (and, with --peewee, through the peewee ORM) is executed on both, and
fetched rows, rowcount and lastrowid are compared.  Usage (from /verif):
   PYTHONPATH=.deps:.:/repo /venv/bin/python tools/dualrun.py [--peewee] [pytest args]
Exit 0 iff the tests pass and no divergence was recorded."""
import os
import sqlite3 as real
import sys
import tempfile
import shutil
import types

sys.path.insert(0, os.path.dirname(os.path.dirname(os.path.abspath(__file__))))
from symex import sqlstub  # noqa: E402

DIVERGENCES = []
STATS = dict(statements=0, compared_rows=0)


def norm(v):
    if isinstance(v, float) and v == int(v):
        return int(v)
    return v


class DualCursor:
    def __init__(self, conn, rc, sc):
        self.conn, self.rc, self.sc = conn, rc, sc
        self._rows = []
        self._pos = 0

    def execute(self, sql, params=()):
        STATS["statements"] += 1
        rerr = serr = None
        try:
            self.rc.execute(sql, params)
        except real.Error as e:
            rerr = e
        try:
            self.sc.execute(sql, params)
        except real.Error as e:
            serr = e
        if (rerr is None) != (serr is None) or (rerr is not None and type(rerr) is not type(serr)):
            DIVERGENCES.append(("exception", sql, repr(rerr), repr(serr)))
        if rerr is not None:
            raise rerr
        self._rows = self.rc.fetchall() if self.rc.description is not None else []
        srows = self.sc.fetchall() if self.sc.description is not None else []
        self._pos = 0
        a = [tuple(norm(v) for v in r) for r in self._rows]
        b = [tuple(norm(v) for v in r) for r in srows]
        STATS["compared_rows"] += len(a)
        head = sql.strip().split()[0].upper()
        if a != b and head != "PRAGMA":
            DIVERGENCES.append(("rows", sql, list(params), a[:5], b[:5]))
        if head in ("INSERT", "UPDATE", "DELETE"):
            if self.rc.rowcount != self.sc.rowcount:
                DIVERGENCES.append(("rowcount", sql, self.rc.rowcount, self.sc.rowcount))
            if head == "INSERT" and self.rc.lastrowid != self.sc.lastrowid:
                DIVERGENCES.append(("lastrowid", sql, self.rc.lastrowid, self.sc.lastrowid))
        return self

    def executemany(self, sql, seq):
        for p in seq:
            self.execute(sql, p)
        return self

    @property
    def description(self):
        return self.rc.description

    @property
    def lastrowid(self):
        return self.rc.lastrowid

    @property
    def rowcount(self):
        return self.rc.rowcount

    def fetchone(self):
        if self._pos < len(self._rows):
            self._pos += 1
            return self._rows[self._pos - 1]
        return None

    def fetchall(self):
        r = self._rows[self._pos :]
        self._pos = len(self._rows)
        return r

    def fetchmany(self, n=1):
        r = self._rows[self._pos : self._pos + n]
        self._pos += len(r)
        return r

    def __iter__(self):
        return self

    def __next__(self):
        r = self.fetchone()
        if r is None:
            raise StopIteration
        return r

    def close(self):
        pass


class DualConnection:
    def __init__(self, *a, **kw):
        self.r = real.connect(*a, **kw)
        self.s = sqlstub.Connection(*a, **kw)

    def cursor(self, *a):
        return DualCursor(self, self.r.cursor(), self.s.cursor())

    def execute(self, sql, params=()):
        return self.cursor().execute(sql, params)

    def executemany(self, sql, seq):
        return self.cursor().executemany(sql, seq)

    def commit(self):
        self.r.commit()
        self.s.commit()

    def rollback(self):
        self.r.rollback()
        self.s.rollback()

    def close(self):
        self.r.close()
        self.s.close()

    def create_function(self, *a, **k):
        self.r.create_function(*a, **k)
        self.s.create_function(*a, **k)

    def __getattr__(self, name):
        return getattr(self.r, name)

    def __enter__(self):
        return self

    def __exit__(self, et, ev, tb):
        if et is None:
            self.commit()
        else:
            self.rollback()
        return False


def dual_module():
    m = types.ModuleType("sqlite3_dual")
    m.__dict__.update({k: getattr(real, k) for k in dir(real) if not k.startswith("__")})
    m.connect = lambda *a, **k: DualConnection(*a, **k)
    return m


def main():
    import pytest

    tmp = tempfile.mkdtemp(prefix="dualrun_")
    os.environ["XDG_DATA_HOME"] = tmp
    os.environ["XDG_CONFIG_HOME"] = tmp
    os.environ["XDG_CACHE_HOME"] = tmp
    args = sys.argv[1:]
    peewee_too = "--peewee" in args
    args = [a for a in args if a != "--peewee"]
    try:
        import aw_datastore.storages.sqlite as sq

        sq.sqlite3 = dual_module()
        if peewee_too:
            import peewee

            peewee.sqlite3 = dual_module()
        os.chdir(os.environ.get("AW_REPO", "/repo"))
        rc = pytest.main(["-q", "-p", "no:cacheprovider", "tests/test_datastore.py", "tests/test_query2.py"] + args)
    finally:
        shutil.rmtree(tmp, ignore_errors=True)
    print("dualrun: statements=%d rows compared=%d divergences=%d" % (STATS["statements"], STATS["compared_rows"], len(DIVERGENCES)))
    for d in DIVERGENCES[:20]:
        print("DIVERGENCE:", d)
    sys.exit(1 if (rc != 0 or DIVERGENCES) else 0)


if __name__ == "__main__":
    main()
