import json,sys,glob
import jsonschema
sch=json.load(open('/root/.vp/EVIDENCE.schema.json'))
for f in sorted(glob.glob('/verif/evidence/*.json')):
    jsonschema.validate(json.load(open(f)), sch); print('ok',f)
if len(sys.argv)>1:
    jsonschema.validate(json.load(open('/verif/MANIFEST.json')), json.load(open('/root/.vp/MANIFEST.schema.json'))); print('manifest ok')
