"""Regenerates /verif/MANIFEST.json from the table below (run after adding a check)."""
import json
import os

V = os.path.dirname(os.path.dirname(os.path.abspath(__file__)))

TECH = "bounded symbolic execution of the real Python functions on shadow values; every path's obligations decided by z3 (unsat = holds for all inputs on that path); counterexamples replayed natively"

CHECKS = {
    "C08": dict(
        text="Shadow symbolic execution of the real heartbeat_merge / heartbeat_reduce with all instants, durations (any sign), pulsetime and data tags symbolic; every feasible path is enumerated and its obligations (iff-rule, hull, fold equality against an independent reference rule, normal form, idempotence, coverage) are discharged by z3 for all values on the path. Bounded by list length only (pair; lists of 2..3 quick, 2..5 thorough).",
        note="Trusted: z3; shadow datetime/timedelta semantics (validated by a native re-run of each path's model); timedelta(seconds=pulsetime) modelled exact. Lists longer than the bound are outside the claim.",
        ref="§7 C08",
    ),
    "C09": dict(
        text="The real filter_period_intersect / period_union (and the third-party pure-Python Timeslot they use) are executed on symbolic millisecond instants and durations for every relative placement of the intervals; z3 discharges, per path, a point-wise exactly-once obligation (fresh time point), containment, data/id preservation, total-duration and input-immutability obligations. Bounded by list sizes (2x2 any order quick; up to 3x3 thorough).",
        note="Trusted: z3, shadow datetime semantics (each path's model re-run natively). Millisecond granularity and internally non-overlapping inputs as stated by the property. Larger lists outside the claim.",
        ref="§7 C09",
    ),
    "C10": dict(
        text="The real flood is executed on N symbolic non-overlapping events (any input order for small N, pre-sorted for larger N) with symbolic pulsetime and data tags; per path z3 discharges point-wise obligations for a fresh time point and label (cover, per-label cover, new time only in short gaps, short gaps closed, long gaps intact), positivity, non-overlap and input immutability.",
        note="Trusted: z3, shadows (validated natively per path); timedelta(seconds=pulsetime) exact. Whole-millisecond durations: N<=3 any order + 4 sorted (quick); N<=4 any order + 6 sorted (thorough). Microsecond durations (N<=3 quick, 4 thorough): the exact no-overlap / short-gap obligations are recorded known findings (sub-millisecond, DESIGN §8a, KNOWN-FINDING lines, exit 0), their 1 ms-tolerant forms must hold. A float-semantics variant (IEEE rounding) for N=2.",
        ref="§7 C10",
    ),
    "C15": dict(
        text="The real union_no_overlap / _split_event are executed on two symbolic sorted non-overlapping lists; per path z3 discharges: each list-one event returned exactly once unchanged, for each list-two event the uncovered part is returned exactly once (fresh time point), pieces keep data, no two outputs share positive time, covered time is the union, inputs unmodified.",
        note="Trusted: z3, shadows (validated natively per path). Whole-millisecond durations: lists up to 2+2, 4+1, 5+1 (quick), 4+4, 6+1 (thorough), zero-length events with the open-interval reading at list-one edges. Microsecond durations (up to 2+1 / 1+2 quick, 2+2 / 3+1 thorough): exact no-overlap / exactly-once are recorded known findings (sub-millisecond, DESIGN §8a), 1 ms-tolerant forms must hold. A float-semantics variant for 1+1.",
        ref="§7 C15",
    ),
    "C16": dict(
        text="The real merge_events_by_keys, chunk_events_by_key, sort_by_*, limit_events, concat, sum_durations and filter_keyvals are executed on symbolic events whose key-presence pattern is explored by forking and whose values are symbolic tags (constant hash, so dict/tuple/list lookups fork on ==); z3 discharges group-partition, exact-sum, run, permutation/order, prefix and complementary-partition obligations on every path.",
        note="Trusted: z3, shadows (validated natively per path); sum_durations in exact arithmetic and, for 2 events, under IEEE double rounding (float-semantics variants); filter_keyvals_regex outside the claim (C regex engine). N<=3..4 quick, N<=4..6 thorough.",
        ref="§7 C16",
    ),
    "C19": dict(
        text="The real Rule / categorize / tag / _pick_category are executed with the regex engine replaced by an arbitrary symbolic boolean per (pattern, value), symbolic category depths, select_keys variants, empty/non-empty regex and ignore_case; z3 discharges on every path that the chosen category is the deepest match with the later rule winning ties (Uncategorized iff nothing matches), that tags are exactly the matching ones in rule order, that IGNORECASE is passed iff asked, and the frame (count, order, instants, durations, ids, unrelated keys). split_url_events / simplify_string: frame + urlparse field mapping on a concrete pool with symbolic instants.",
        note="Trusted: z3, shadows (validated natively per path with real regexes realising the model's booleans). What a regex matches, URL parsing and the title regexes are C / stdlib code outside the claim.",
        ref="§7 C19",
    ),
    "C11": dict(
        text="Programs are printed from ASTs (literals, variables with rebinding/aliasing, nested calls in every argument position, all 22 built-ins) whose leaves are symbolic: every digit, every string character (all of Unicode except quote, backslash, ';') and the whitespace in separator slots; the real aw_query.query2.query runs on the symbolic text (SStr shadow) and z3 decides on every path that the result equals the value computed by an independent reference evaluator (own built-in table calling aw_transform / Bucket directly).",
        note="Trusted: z3, SStr character semantics (CPython's own Unicode tables; each path's model re-run natively). Bounded by the enumerated program shapes (70 shapes, <=3 statements, depth <=3), <=2 symbolic characters per literal, one symbolic whitespace slot at a time.",
        ref="§7 C11",
    ),
    "C17": dict(
        text="The real query() is executed on program texts in which one (thorough: two) character(s) at every position are replaced by / preceded by a symbolic character ranging over all Unicode code points, optionally after a delete/duplicate/swap edit, and on free strings of symbolic characters inside syntactic contexts; on every feasible path the outcome must be a value or a QueryException (any other exception whose innermost repository frame is in aw_query/ is a violation, identified by its raising site) and the path must finish within 30 s.",
        note="Trusted: z3, SStr semantics (validated natively per path). Which query error is raised is not asserted. Exceptions raised inside transform/datastore bodies after type resolution are outside the property. Bounded by the 14 seeds, 1-2 symbolic characters, free strings of <=2 (quick) / <=4 (thorough) characters.",
        ref="§7 C17",
    ),
    "C13": dict(
        text="The real Event constructor / setters / to_json_dict are executed (a) in exact integer arithmetic on an arbitrary microsecond instant with a symbolic UTC offset and every duration kind, (b) with isoformat() rendered and iso8601 parsed back character by character for a symbolic microsecond, and (c) under an SMT encoding of IEEE double rounding (rounded reals, per binade) for the three float kernels: int(us/1000)*1000 for all 10^6 microsecond values, timedelta(seconds=float) for every real in [0, 30 d], and duration -> total_seconds() -> timedelta for every whole microsecond in [0, 30 d]. Sensitivity twins (truncation, tighter bound) must come back sat.",
        note="Trusted: z3 (LIA/LRA), the rounded-real characterisation of round-to-nearest (over-approximation: unsat is sound), CPython's documented algorithms for int/int division, timedelta(seconds=), total_seconds(); iso8601 parsing modelled only for the shape isoformat() emits; jsonschema validation runs on the native replays only.",
        ref="§4, §7 C13",
    ),
    "C20": dict(
        text="The real _merge / load_config_toml / _comment_out_toml (compiled from the current source) are executed with default and user documents whose nested shape is explored by forking and whose scalar leaves are symbolic, with and without an existing file, twice per process; z3 decides on every path that the result equals an independent overlay at every depth, and for _comment_out_toml on lines of arbitrary Unicode characters that every output line is blank, a comment or a header and keeps its content. File effects are observed through an in-memory file table.",
        note="Trusted: z3, shadows; tomlkit's text<->dict parsing is stubbed by prepared nested dicts (third-party parser, outside the claim) and cross-checked on 4 real documents with real tomlkit and real files. Bounded by nesting shape ([2,1] quick; depth 3 thorough) and <=3 lines x <=4 chars.",
        ref="§7 C20",
    ),
    "C02": dict(
        text="Inductive step over an arbitrary valid store state: the real Bucket API over MemoryStorage, SqliteStorage and PeeweeStorage (the SQL text the source / the peewee ORM emits is parsed and executed by a symbolic model of sqlite3) runs one operation with symbolic arguments from a pre-state of symbolic rows (ids, instants, durations, tags, AUTOINCREMENT mark); z3 decides on every path that the post-state tables equal the reference list model as multisets, that replace_last rewrites exactly the row a limit-1 read returned, delete removes exactly the addressed row, new ids are fresh, reads agree, and the other bucket is untouched.",
        note="Trusted: z3; the SQL model (0 divergences from the real sqlite3 on 5.6k statements of the repo's own tests, tools/dualrun.py; every path's model re-run natively on a real database file); float microsecond arithmetic exact here (IEEE fidelity is C01). Bounded: <=2 (quick) / <=3 (thorough) live events + 1 foreign, one operation; three backends.",
        ref="§5, §7 C02",
    ),
    "C04": dict(
        text="Two buckets in an arbitrary valid state; one operation on A (insert, upsert, replace, replace_last, delete, update/delete bucket) with an UNCONSTRAINED event id (may belong to B) and instants; z3 decides on every path that B's table rows, API listing (order included) and metadata are identical afterwards, whether the call returned or raised.",
        note="As C02. Bounded: 1+1 events (quick), up to 2+2 (thorough); memory, sqlite and peewee backends; includes a rejected bulk insert while the other bucket has buffered writes.",
        ref="§7 C04",
    ),
    "C03": dict(
        text="Windowed reads: stored events with symbolic instants / durations (any overlap, nesting, zero length), window start / end as arbitrary microseconds with their own symbolic UTC offsets (each optionally absent) and every limit in [-2, N+1]; the real Bucket.get / get_eventcount over memory, sqlite and peewee run on the shadows (SQL through the sqlite3 model, float window edges with an explicit rounding-noise model) and z3 decides MUST subset result subset MAY (2 ms tolerance), no duplicates, newest-first, limit = prefix of the unlimited read, count between |MUST| and |MAY|, window rounding, and that returned events equal stored rows.",
        note="As C02. Events <= 24 h. Bounded: N<=2 (quick), 3 (thorough); peewee (the clipping backend): N=1 all window shapes, N=2 with at most one edge; SQLite's julianday/strftime date math is a contract stub (within 1 ms, arbitrary inside that band).",
        ref="§7 C03",
    ),
    "C06": dict(
        text="Inductive single step over the sqlite commit machinery: symbolic counter, symbolic number of buffered elementary writes (<= counter <= 50), symbolic age of the last flush and symbolic clock readings; every operation kind in lazy and eager mode. z3 decides that bucket operations and reads leave nothing buffered, that after any event write buffered writes <= counter <= 50, that single-event / bucket operations are not split by a commit, and that eager mode leaves nothing buffered. The crash image is the model's committed snapshot.",
        note="TRUSTED and not verified: SQLite's atomic commit / rollback of everything since the last COMMIT on process death (the 'prefix in issue order' half of the property rests on it). Native validation observes the file through a second real connection. Includes rejected bucket operations (no rollback of buffered writes). Peewee (auto-commit): asserted per operation that nothing stays buffered, the committed image equals the working tables and no BEGIN/ROLLBACK is issued.",
        ref="§5.2, §7 C06",
    ),
    "C18": dict(
        text="Same harness as C06 with the clock symbolic: after any event write returns, whatever is still buffered was buffered no more than ~10 s (11 s) after the most recent flush, for every age of the last flush and every counter value; a sensitivity obligation shows that a recent flush with a low counter keeps buffering.",
        note="As C06; sqlite.datetime.now() replaced by arbitrary non-decreasing instants.",
        ref="§7 C18",
    ),
    "C01": dict(
        text="(a) exact arithmetic: an event with an arbitrary microsecond instant, symbolic UTC offset, duration and pooled JSON data is inserted (single / bulk) into memory and sqlite (SQL through the sqlite3 model) and z3 decides that listing and lookup return it with a unique id, instant floored to ms, duration and data equal; (b) ownership: every alias handed in or out (event, nested data, timestamp, duration, id, metadata dicts) is mutated and a second read must equal the first; (c) IEEE lemma: the real insert_one -> REAL/INTEGER cells -> _rows_to_events float pipeline is executed under the rounded-real encoding of double arithmetic for every millisecond instant and every microsecond duration, split into range pieces with a single binade per rounding: instant exact to the ms and duration exact to the us.",
        note="Trusted: z3, the sqlite3 model (dual-run conformance), CPython's documented float algorithms. IEEE lemma: instants 2000..2099 (quick) / 1970..2099 (thorough) x durations 0..30 d; exact ties are over-approximated and candidates are confirmed natively (up to 12 re-sampled models). Memory, sqlite and peewee for (a) and (b); peewee's float chain (total_seconds -> REAL -> Decimal(str) -> float -> timedelta) is C13's json-duration lemma and its TEXT timestamps round-trip through iso8601 (contract stub).",
        ref="§4, §7 C01",
    ),
    "C05": dict(
        text="Every history of L lifecycle operations (create, update with 5 field masks, delete, lookup, describe, event insert, event read) over two bucket ids is explored by forking, with symbolic event content; after every step z3 / structural comparison decides that the listing equals a reference map (all metadata fields, creation instant, data), that a created bucket is empty, that updates change exactly the supplied fields, that deletion removes the bucket and its events at table level (no orphan rows, re-creation yields an empty bucket), and that operations on a missing bucket raise KeyError / ValueError and change nothing.",
        note="As C02. The value space is small and mostly structural (stated in DESIGN): exhaustive bounded exploration, L<=3 quick / 4 thorough. Outside the quantifier: create on an existing id, empty updates, empty-string fields.",
        ref="§7 C05",
    ),
    "C07": dict(
        text="The standard heartbeat loop (get(limit=1), heartbeat_merge, replace_last | insert) written over the real Bucket API is run (a) as an inductive step from a bucket holding an arbitrary reduced stream with another populated bucket sharing the database and (b) on whole streams from the empty bucket; z3 decides that the bucket equals the real heartbeat_reduce of the stream, that earlier events are untouched and the other bucket is unchanged.",
        note="As C02 / C08. |R|<=2, k<=3 (quick); |R|<=3, k<=4 (thorough); memory, sqlite and peewee.",
        ref="§7 C07",
    ),
    "C12": dict(
        text="27 query programs (every registered built-in, including the in-place transforms, and six programs that raise midway) run through the real query() over a store with symbolic event instants and a symbolic query window (each edge with its own UTC offset); z3 decides that the table-level dump and metadata of every bucket are identical afterwards whether the query returned or raised, and that query_bucket / query_bucket_eventcount equal a direct windowed Bucket.get / get_eventcount for the same symbolic window.",
        note="As C02 plus the transform stubs of C08/C10/C16; STARTTIME/ENDTIME travel as opaque ISO text (iso8601 stubbed by contract). Program texts are concrete here. Memory, sqlite and peewee backends.",
        ref="§7 C12",
    ),
    "C14": dict(
        text="The real SqliteStorage.__init__ -> check_for_migration -> detect_db_files -> peewee_v2_to_sqlite_v1 path runs with an in-memory directory listing (5 variants x both profiles) and a legacy store stub holding buckets and events with symbolic instants, durations, tags and ids; z3 decides that migration is triggered iff a legacy file of that profile exists, that every bucket arrives with all metadata incl. data, that every event arrives exactly once with the same instant, duration and data, and that the legacy store received no write.",
        note="Trusted: the sqlite3 model; the legacy store is a stub behind the real AbstractStorage interface (reading the legacy file through peewee is not part of this check). <=2 buckets x <=2 (quick) / 3 (thorough) events.",
        ref="§7 C14",
    ),
}

NOT_YET = "check not built yet (work in progress; see DESIGN.md §7 for the plan)"
ALL = ["C%02d" % i for i in range(1, 21)]


def main():
    checks = []
    for pid in ALL:
        if pid not in CHECKS:
            continue
        c = CHECKS[pid]
        checks.append(
            dict(
                property_id=pid,
                quick_cmd="./check %s --tier quick" % pid,
                thorough_cmd="./check %s --tier thorough" % pid,
                evidence_file="evidence/%s.json" % pid,
                replay_cmd_template="./check %s --replay {path}" % pid,
                engine="symex",
                level_claimed=dict(category=c.get("category", "model_checking"), text=c["text"], design_ref=c["ref"]),
                level_note=c["note"],
                technique=c.get("technique", TECH),
            )
        )
    na = [dict(property_id=p, reason=NA.get(p, NOT_YET)) for p in ALL if p not in CHECKS]
    m = dict(
        version=1,
        setup_cmd="/venv/bin/pip install -q --no-index --find-links /opt/veriftools/wheels --target /verif/.deps z3-solver lark cvc5",
        hooks=dict(
            guard="AW_CORE_VERIF",
            enable="no source hooks: checks import /repo's modules as they are and rebind module globals (int, timedelta, datetime, sqlite3) from the harness; ./check exports AW_CORE_VERIF=1 for form only",
            baseline_off_cmd="cd /repo && /venv/bin/python -m pytest -ra -q -p no:cacheprovider --timeout=900 --continue-on-collection-errors",
            source_commits=[],
            add_only=True,
        ),
        engines=[
            dict(
                name="symex",
                path="symex/",
                serves_properties=sorted(CHECKS),
                kind_free_text="shadow-value symbolic executor for Python: real /repo functions run on z3-carrying subclasses of int/str/datetime/timedelta, decision-trail DFS with an incremental z3 solver, per-path obligations, native replay of every counterexample",
            )
        ],
        checks=checks,
        not_applicable=na,
        notes="All checks are run as ./check <ID> --tier quick|thorough from /verif; exit 0 = held on every explored path (a KNOWN-FINDING line is printed for each signature listed with status 'known' in /verif/known_findings.json — C10 and C15, sub-millisecond effects, DESIGN.md §8a — and the exit code stays 0), 1 = replay-confirmed VIOLATION, 2 = inconclusive / harness error (never a verdict).",
    )
    with open(os.path.join(V, "MANIFEST.json"), "w") as f:
        json.dump(m, f, indent=1)


NA = {}

if __name__ == "__main__":
    main()
