"""Harness runner: parallel exploration, native validation, replay, evidence."""
import hashlib
import json
import multiprocessing as mp
import os
import subprocess
import sys
import time
import traceback

import z3

from symex import engine as E
from symex.engine import Abort, Unsupported
from symex import shadows as S

VERIF = os.path.dirname(os.path.dirname(os.path.abspath(__file__)))
REPO = os.environ.get("AW_REPO", "/repo")


# ------------------------------------------------------------------ stubbing
_STUBS = []  # (module, name, original, stub)
_MISSING = object()


def stub(module, name, value):
    """rebind a module global of a freshly imported module under test"""
    orig = module.__dict__.get(name, _MISSING)
    for rec in _STUBS:
        if rec[0] is module and rec[1] == name:
            module.__dict__[name] = value
            rec[3] = value
            return
    _STUBS.append([module, name, orig, value])
    module.__dict__[name] = value


def shadow_module(module):
    """rebind, in a module under test, the builtins and stdlib names through which a (possibly newly
    introduced) computation would otherwise reach C code with a shadow value: int, float, and timedelta
    when the module imports it"""
    from datetime import timedelta as _td

    stub(module, "int", S.sym_int)
    stub(module, "float", S.sym_float)
    if module.__dict__.get("timedelta") is _td:
        stub(module, "timedelta", S.sym_timedelta)


FLOATS = False
FLOAT_PIECES = 17


def with_floats(fn, pieces=17):
    """variant of a harness in which whatever float arithmetic the code performs on instants and durations
    follows IEEE double rounding (symex.fp); quantities drawn through X.ranged() are confined to binary
    range pieces below 2^17"""

    def h(x, **kw):
        global FLOATS, FLOAT_PIECES
        FLOATS = True
        prev, FLOAT_PIECES = FLOAT_PIECES, pieces
        try:
            with float_semantics():
                return fn(x, **kw)
        finally:
            FLOATS = False
            FLOAT_PIECES = prev

    h.__name__ = fn.__name__ + "_floats"
    return h


class float_semantics:
    """within the block, float-producing operations on shadows (total_seconds(), timestamp(), int / int,
    timedelta / timedelta) follow IEEE double rounding (symex.fp) instead of exact rationals"""

    def __init__(self, on=True):
        self.on = on

    def __enter__(self):
        from symex import fp

        self.prev = fp.IEEE
        if self.on:
            fp.IEEE = True

    def __exit__(self, *a):
        from symex import fp

        fp.IEEE = self.prev


class native_mode:
    """run the real code without shadows: all stubs removed, engine in concrete mode"""

    def __enter__(self):
        for module, name, orig, _ in _STUBS:
            if orig is _MISSING:
                module.__dict__.pop(name, None)
            else:
                module.__dict__[name] = orig
        self.prev = E.ENG.concrete
        E.ENG.concrete = True

    def __exit__(self, *a):
        for module, name, _, value in _STUBS:
            module.__dict__[name] = value
        E.ENG.concrete = self.prev


# -------------------------------------------------------------------- inputs
class X:
    """Input provider.  Symbolic mode: fresh z3 constants wrapped in shadows.
    Native mode (values given): plain Python values."""

    def __init__(self, values=None):
        self.sym = values is None
        self.values = values
        self.names = []
        self.log = {}

    def _decl(self, name, kind="int"):
        if name in self.log:
            raise KeyError("duplicate input " + name)
        self.names.append((name, kind))

    def ranged(self, name, lo, hi):
        """an integer quantity in [lo, hi]; under float semantics (FLOATS) it is instead confined to one binary
        range piece [2^p, 2^(p+1)) below 2^FLOAT_PIECES chosen by forking, so that every float rounding applied
        to it has one or two candidate binades"""
        if not FLOATS:
            return self.zint(name, lo, hi)
        p = self.choice(name + "_piece", FLOAT_PIECES)
        return self.zint(name, max(lo, 2**p if p else 0), min(hi, 2 ** (p + 1) - 1))

    def zint(self, name, lo=None, hi=None):
        """raw z3 Int (sym) / python int (native)"""
        self._decl(name)
        if self.sym:
            v = z3.Int(name)
            if lo is not None:
                E.ENG.assume(v >= lo)
            if hi is not None:
                E.ENG.assume(v <= hi)
            if lo is not None and hi is not None:
                from symex import fp

                fp.declare_bounds(name, lo, hi)
        else:
            v = self.values[name]
            if (lo is not None and v < lo) or (hi is not None and v > hi):
                raise Abort()
        self.log[name] = v
        return v

    def int(self, name, lo=None, hi=None):
        v = self.zint(name, lo, hi)
        return S.SInt(v) if self.sym else v

    def wrap(self, z):
        return S.SInt(z) if S.is_z3(z) else z

    def zbool(self, name):
        self._decl(name, "bool")
        v = z3.Bool(name) if self.sym else bool(self.values[name])
        self.log[name] = v
        return v

    def choice(self, name, n):
        """concrete index in range(n), explored by forking"""
        v = self.zint(name, 0, n - 1)
        if not self.sym:
            return v
        lo, hi = 0, n - 1  # binary splitting: depth log2(n)
        while lo < hi:
            mid = (lo + hi) // 2
            if E.ENG.branch(v <= mid):
                hi = mid
            else:
                lo = mid + 1
        return lo

    def flag(self, name):
        return self.choice(name, 2) == 1

    def assume(self, c):
        if isinstance(c, S.SBool):
            c = c.z
        E.ENG.assume(c)

    # time helpers ------------------------------------------------------
    def dt_us(self, us, off=0, aligned=False):
        """datetime denoting epoch-microsecond ``us`` (z3 term or int)"""
        if self.sym:
            return S.SDatetime(us, off, aligned) if S.is_z3(us) or S.is_z3(off) else S.mkdt(us, off)
        return S.mkdt(us, off)

    def dt_parts(self, sec, micro, off=0):
        """datetime with concrete epoch second, symbolic microsecond, concrete offset (minutes):
        its isoformat() is rendered character by character"""
        if self.sym and S.is_z3(micro):
            return S.SDatetime(sec * 1000000 + micro, off, False, (sec, micro))
        return S.mkdt(sec * 1000000 + micro, off)

    def td_us(self, us, aligned=False):
        if self.sym and S.is_z3(us):
            return S.STimedelta(us, aligned)
        from datetime import timedelta

        return timedelta(microseconds=us)

    def seconds_us(self, us):
        """a 'float seconds' argument whose value is exactly us/10^6"""
        if self.sym and S.is_z3(us):
            return S.SRatio(us, 1000000)
        return us / 1000000


def model_values(model, names):
    out = {}
    for name, kind in names:
        if kind == "bool":
            out[name] = bool(z3.is_true(model.eval(z3.Bool(name), model_completion=True)))
        elif kind == "real":
            v = model.eval(z3.Real(name), model_completion=True)
            out[name] = [v.numerator_as_long(), v.denominator_as_long()]
        else:
            out[name] = model.eval(z3.Int(name), model_completion=True).as_long()
    return out


def eval_obs(model, obs):
    """evaluate an observation structure (nested lists/dicts/tuples of z3 terms and python values)"""
    if isinstance(obs, (list, tuple)):
        return [eval_obs(model, o) for o in obs]
    if isinstance(obs, dict):
        return {str(k): eval_obs(model, v) for k, v in obs.items()}
    if isinstance(obs, S.SInt):
        obs = obs.z
    if isinstance(obs, S.SBool):
        obs = obs.z
    if S.is_z3(obs):
        v = model.eval(obs, model_completion=True)
        if z3.is_int_value(v):
            return v.as_long()
        if z3.is_true(v):
            return True
        if z3.is_false(v):
            return False
        if z3.is_rational_value(v):
            return [v.numerator_as_long(), v.denominator_as_long()]
        return str(v)
    if isinstance(obs, bool) or obs is None or isinstance(obs, (int, str)):
        return obs
    if isinstance(obs, float):
        return obs
    return repr(obs)


def plain_obs(obs):
    if isinstance(obs, (list, tuple)):
        return [plain_obs(o) for o in obs]
    if isinstance(obs, dict):
        return {str(k): plain_obs(v) for k, v in obs.items()}
    if isinstance(obs, bool) or obs is None or isinstance(obs, (int, str, float)):
        return obs
    return repr(obs)


# ------------------------------------------------------------------ harness
HARNESSES = {}


def reset_memoised():
    """every path starts like a fresh process as far as functools caches of the code under test go: a memo
    filled on one path must not steer another (the engine re-executes the harness in one process); caches
    still act *within* a path, which is where their effect on the property is checked"""
    for name, mod in list(sys.modules.items()):
        f = getattr(mod, "__file__", None)
        if not f or not f.startswith(REPO + os.sep):
            continue
        for holder in [mod] + [v for v in list(vars(mod).values()) if isinstance(v, type) and getattr(v, "__module__", None) == name]:
            for v in list(vars(holder).values()):
                v = getattr(v, "__func__", v)
                clear = getattr(v, "cache_clear", None)
                if callable(clear):
                    try:
                        clear()
                    except Exception:  # noqa
                        pass


EXTRA = []  # obligations contributed by the environment of a harness (e.g. the store backends' bystander store)


class Harness:
    def __init__(self, prop, name, fn, params, desc="", split_depth=6, known=None, fresh_solver=False, cross_solver=0):
        self.fresh_solver = fresh_solver
        self.cross_solver = cross_solver  # per worker job: how many unsat path verdicts are re-decided with cvc5
        self.prop = prop
        self.name = name
        self.fn = fn
        self.params = params
        self.desc = desc
        self.split_depth = split_depth
        self.key = "%s/%s" % (prop, name)
        HARNESSES[self.key] = self

    def run_sym(self):
        x = X()
        del EXTRA[:]
        reset_memoised()
        r = self.fn(x, **self.params)
        obligations, obs = r if isinstance(r, tuple) else (r, None)
        return x, list(obligations) + list(EXTRA), obs

    def run_native(self, values):
        x = X(values)
        del EXTRA[:]
        reset_memoised()
        with native_mode():
            r = self.fn(x, **self.params)
        obligations, obs = r if isinstance(r, tuple) else (r, None)
        return x, list(obligations) + list(EXTRA), obs


def _worker_job(key, job, roots, max_paths, deadline, seed, validate_cap, split_depth):
    """runs in a worker process"""
    h = HARNESSES[key]
    eng = E.set_engine(E.Engine(seed=seed))
    eng.fresh_solver_per_path = h.fresh_solver
    eng.cross_budget = h.cross_solver
    eng.split_depth = split_depth if job == "split" else None
    res = dict(cex=[], samples=[], validated=0, validation_errors=[], errors=[], native_skipped=0)
    state = dict(x=None, obs=None, n=0)

    def fn():
        x, obligations, obs = h.run_sym()
        state["x"] = x
        state["obs"] = obs
        return obligations

    def on_path(eng, obligations, failed):
        state["n"] += 1
        n = state["n"]
        x = state["x"]
        want_sample = len(res["samples"]) < 2
        do_validate = n <= validate_cap or n % 16 == 0
        if not (want_sample or do_validate or failed):
            return
        m = eng.get_model(timeout_ms=5000 if not failed else None)
        if m is None:
            return
        if do_validate and eng.noise_sites and any(z3.is_true(m.eval(q, model_completion=True)) for q in eng.noise_sites):
            # the model sits exactly on a float-rounding boundary where the modelled comparison is
            # deliberately nondeterministic: the native run may legitimately take the other side
            do_validate = False
            res["native_skipped"] += 1
        vals = model_values(m, x.names)
        if want_sample:
            try:
                ob_s = eval_obs(m, state["obs"])
            except Exception:  # noqa
                ob_s = None
            res["samples"].append(dict(trail="".join(("T" if d else "F") if not isinstance(d, tuple) else ("(%s=%s)" % ("=" if d[0] else "!", d[1])) for d in eng.trail[: eng.pos]), inputs=vals, observation_under_model=ob_s,
                                       obligations_discharged_on_this_path=[nm for nm, _ in obligations][:40]))
        if do_validate:
            try:
                shadow_obs = eval_obs(m, state["obs"])
                shadow_obl = [(nm, eval_obs(m, ob)) for nm, ob in obligations]
                try:
                    _, n_obl, n_obs = h.run_native(vals)
                except Abort:
                    res["validation_errors"].append(dict(what="native run rejects the model's inputs (assumption)", inputs=vals))
                    return
                n_obs = plain_obs(n_obs)
                n_obl = [(nm, bool(ob)) for nm, ob in n_obl]
                native_false = [nm for nm, ob in n_obl if not ob]
                if native_false and (shadow_obs != n_obs or shadow_obl != n_obl):
                    # the real code, run natively on this path's model, breaks an obligation that the shadow
                    # run did not see breaking (e.g. the interpreter's recursion limit): a concrete, already
                    # reproduced failing input — reported as such, and counted as a modelling gap
                    for nm in native_false:
                        res["cex"].append(dict(obligation=nm, inputs=vals, trail=[], found_by="native validation of the path's model"))
                    res["native_only_failures"] = res.get("native_only_failures", 0) + 1
                elif shadow_obs != n_obs or shadow_obl != n_obl:
                    res["validation_errors"].append(
                        dict(what="shadow run and native run disagree", inputs=vals, shadow=[shadow_obs, shadow_obl], native=[n_obs, n_obl])
                    )
                else:
                    res["validated"] += 1
            except (Unsupported, Exception) as e:  # noqa
                res["validation_errors"].append(dict(what="native run failed: %r" % (e,), inputs=vals, tb=traceback.format_exc()))

    def confirm(name, model):
        try:
            return replay_native(h, model_values(model, state["x"].names), name)[0]
        except BaseException:  # noqa
            return False

    def blocking_terms(model):
        out = []
        for nm, kind in state["x"].names:
            if kind == "int":
                t = z3.Int(nm)
                out.append((t, model.eval(t, model_completion=True)))
        return out

    eng.confirm = confirm
    eng.blocking_terms = blocking_terms
    try:
        out = eng.explore(fn, roots=roots, max_paths=max_paths, deadline=deadline, on_path=on_path, stop_on_cex=False)
        x = state["x"]
        for name, m, trail in out["cex"]:
            res["cex"].append(dict(obligation=name, inputs=model_values(m, x.names), trail=trail))
        res["left"] = out["left"]
        res["frontier"] = out["frontier"]
    except Unsupported as e:
        res["errors"].append("Unsupported: %s\n%s" % (e, traceback.format_exc()))
        res["left"] = []
        res["frontier"] = []
    except Exception as e:
        res["errors"].append("harness error: %r\n%s" % (e, traceback.format_exc()))
        res["left"] = []
        res["frontier"] = []
    res["stats"] = eng.stats
    res["inconclusive"] = eng.inconclusive[:20]
    return res


class Result:
    def __init__(self, h):
        self.h = h
        self.stats = {}
        self.cex = []
        self.samples = []
        self.validated = 0
        self.validation_errors = []
        self.errors = []
        self.inconclusive = []
        self.pending = 0
        self.wall_s = 0.0
        self.exhaustive = False

    def add(self, r):
        for k, v in r["stats"].items():
            if k == "max_depth":
                self.stats[k] = max(self.stats.get(k, 0), v)
            else:
                self.stats[k] = self.stats.get(k, 0) + v
        self.cex += r["cex"]
        if len(self.samples) < 3:
            self.samples += r["samples"][: 3 - len(self.samples)]
        self.validated += r["validated"]
        self.validation_errors += r["validation_errors"]
        self.errors += r["errors"]
        self.inconclusive += r["inconclusive"]


def run_harness(h, budget_s=600, nproc=None, seed=0, validate_cap=40, chunk_paths=400):
    """explore h exhaustively (within budget) on up to nproc processes"""
    nproc = nproc or min(16, os.cpu_count() or 1)
    t0 = time.time()
    deadline = t0 + budget_s
    res = Result(h)
    ctx = mp.get_context("fork")
    pool = ctx.Pool(nproc)
    try:
        first = pool.apply_async(_worker_job, (h.key, "split", [[]], None, deadline, seed, validate_cap, h.split_depth))
        r = first.get()
        res.add(r)
        queue = list(r["frontier"]) + list(r["left"])
        running = []
        while (queue or running) and not res.errors:
            while queue and len(running) < nproc * 2:
                # hand out one root per job; big subtrees come back as leftovers
                root = queue.pop()
                running.append(pool.apply_async(_worker_job, (h.key, "subtree", [root], chunk_paths, deadline, seed, validate_cap, None)))
            still = []
            progressed = False
            for a in running:
                if a.ready():
                    r = a.get()
                    res.add(r)
                    queue += r["left"]
                    progressed = True
                else:
                    still.append(a)
            running = still
            if time.time() > deadline:
                # drain: workers stop at the deadline themselves
                for a in running:
                    r = a.get()
                    res.add(r)
                    queue += r["left"]
                running = []
                break
            if not progressed:
                time.sleep(0.01)
        res.pending = len(queue)
    finally:
        pool.terminate()
        pool.join()
    res.exhaustive = res.pending == 0 and not res.errors and not res.inconclusive
    res.wall_s = time.time() - t0
    return res


# ------------------------------------------------------------ findings file
def load_known():
    p = os.path.join(VERIF, "known_findings.json")
    if not os.path.exists(p):
        return []
    return json.load(open(p))["findings"]


def git_blob(path):
    try:
        return subprocess.check_output(["git", "hash-object", path], text=True).strip()
    except Exception:
        return hashlib.sha1(open(path, "rb").read()).hexdigest()


# ------------------------------------------------------------------ checking
class Check:
    """one property: a list of harnesses + evidence + verdict"""

    def __init__(self, prop, tier, seed):
        self.prop = prop
        self.tier = tier
        self.seed = seed
        self.t0 = time.time()
        self.results = []
        self.extra = {}
        self.violations = []
        self.known_hits = []
        self.harness_errors = []
        self.assumptions = []
        self.functions = []
        self.bounds = []
        self.stubs = []
        self.vacuity = []
        self.lemmas = []

    def run(self, h, budget_s=600, **kw):
        r = run_harness(h, budget_s=budget_s, seed=self.seed, **kw)
        self.results.append(r)
        self._judge(r)
        st = r.stats
        print(
            "[%s] %-34s paths=%d decisions=%d obligations=%d discharged=%d queries=%d solver=%.1fs wall=%.1fs validated=%d pending=%d cex=%d"
            % (self.prop, h.name, st.get("paths", 0), st.get("decisions", 0), st.get("obligations", 0), st.get("discharged", 0),
               st.get("queries", 0), st.get("solver_s", 0.0), r.wall_s, r.validated, r.pending, len(r.cex)),
            flush=True,
        )
        return r

    def _judge(self, r):
        h = r.h
        for e in r.errors:
            self.harness_errors.append("%s: %s" % (h.key, e))
        for e in r.validation_errors[:3]:
            self.harness_errors.append("%s: validation: %s" % (h.key, json.dumps(e, default=str)[:2000]))
        for e in r.inconclusive[:3]:
            self.harness_errors.append("%s: inconclusive: %s" % (h.key, e))
        if r.pending:
            self.harness_errors.append("%s: budget exhausted with %d subtrees pending" % (h.key, r.pending))
        known = [k for k in load_known() if k.get("status") == "known" and k["property"] == self.prop]
        seen = {}
        for c in r.cex:
            sig = "%s/%s" % (h.name, c["obligation"])
            seen.setdefault(sig, []).append(c)
        for sig, cs in sorted(seen.items()):
            confirmed = None
            for c in cs[:16]:
                ok, detail = replay_native(h, c["inputs"], c["obligation"])
                if ok:
                    confirmed = (c, detail)
                    break
            if confirmed is None:
                self.harness_errors.append("%s: counterexample for %s does not reproduce natively (model/encoding error): %s" % (h.key, sig, json.dumps(cs[0]["inputs"])))
                continue
            c, detail = confirmed
            path = write_replay(self.prop, h, c, detail)
            k = [k for k in known if k["signature"] == sig]
            if k:
                self.known_hits.append((k[0], path, len(cs)))
            else:
                self.violations.append((sig, path, detail))

    def finish(self, level="model_checking"):
        wall = time.time() - self.t0
        tot = {}
        for r in self.results:
            for k, v in r.stats.items():
                tot[k] = max(tot.get(k, 0), v) if k == "max_depth" else tot.get(k, 0) + v
        samples = []
        for r in self.results:
            for s in r.samples[:2]:
                samples.append(dict(harness=r.h.name, **s))
        paths = int(tot.get("paths", 0))
        ev = dict(
            property_id=self.prop,
            tier=self.tier,
            seed=self.seed,
            level=level,
            coverage=dict(
                states=max(paths, 0),
                transitions=int(tot.get("decisions", 0)),
                traces_validated_against_impl=sum(r.validated for r in self.results),
                samples=samples[:12] or [dict(note="no path explored")],
                obligations=int(tot.get("obligations", 0)),
                discharged=int(tot.get("discharged", 0)),
                evaluations=paths,
                distinct_nontrivial=int(tot.get("nontrivial_paths", 0)),
                rule="one case = one feasible execution path of the real code under symbolic inputs (distinct decision trail); non-trivial = the path took at least one symbolic decision",
                exhaustive=all(r.exhaustive for r in self.results) and not self.harness_errors,
                harnesses=[
                    dict(
                        name=r.h.name, desc=r.h.desc, params={k: v for k, v in r.h.params.items() if isinstance(v, (int, str, bool, float))},
                        paths=int(r.stats.get("paths", 0)), decisions=int(r.stats.get("decisions", 0)),
                        infeasible_aborted=int(r.stats.get("aborted", 0)), max_depth=int(r.stats.get("max_depth", 0)),
                        obligations=int(r.stats.get("obligations", 0)), discharged=int(r.stats.get("discharged", 0)),
                        solver_queries=int(r.stats.get("queries", 0)), sat=int(r.stats.get("sat", 0)), unsat=int(r.stats.get("unsat", 0)),
                        unknown=int(r.stats.get("unknown", 0)), solver_s=round(r.stats.get("solver_s", 0.0), 3), wall_s=round(r.wall_s, 3),
                        validated_native=r.validated, pending_subtrees=r.pending, exhaustive=r.exhaustive, counterexamples=len(r.cex),
                    )
                    for r in self.results
                ],
                functions_encoded=self.functions,
                bounds=self.bounds,
                stubs=self.stubs,
                vacuity=self.vacuity,
                lemmas=self.lemmas,
                solver=dict(z3=z3.get_version_string(), cvc5_rechecked_unsat=int(tot.get("cvc5_unsat", 0)), cvc5_disagreements=int(tot.get("cvc5_sat", 0)),
                            cvc5_unknown_or_error=int(tot.get("cvc5_unknown", 0) + tot.get("cvc5_error", 0)), cvc5_s=round(tot.get("cvc5_s", 0.0), 2), queries=int(tot.get("queries", 0)), sat=int(tot.get("sat", 0)), unsat=int(tot.get("unsat", 0)),
                            unknown=int(tot.get("unknown", 0)), solver_s=round(tot.get("solver_s", 0.0), 3)),
                inconclusive=self.harness_errors[:20],
                known_findings_hit=[k["signature"] for k, _, _ in self.known_hits],
                **self.extra,
            ),
            assumptions=self.assumptions,
            wall_s=round(wall, 3),
            violations=len(self.violations),
        )
        os.makedirs(os.path.join(VERIF, "evidence"), exist_ok=True)
        with open(os.path.join(VERIF, "evidence", "%s.json" % self.prop), "w") as f:
            json.dump(ev, f, indent=1, default=str)
        for k, path, n in self.known_hits:
            print("KNOWN-FINDING: property=%s %s (%s; replay=%s; %d paths)" % (self.prop, k["what"], k["signature"], path, n))
        for sig, path, detail in self.violations:
            print("VIOLATION property=%s replay=%s" % (self.prop, path))
            print("  obligation %s failed: %s" % (sig, detail))
        if self.violations:
            return 1
        if self.harness_errors:
            for e in self.harness_errors[:10]:
                print("INCONCLUSIVE/HARNESS-ERROR: " + e[:3000])
            return 2
        print("[%s] OK tier=%s wall=%.1fs" % (self.prop, self.tier, wall))
        return 0


def replay_native(h, inputs, obligation):
    """run the real code natively on the concrete inputs; True iff the named obligation is False"""
    try:
        _, obl, obs = h.run_native(inputs)
    except Abort:
        return False, "inputs rejected by assumptions"
    except Exception as e:
        return False, "native run raised %r" % (e,)
    for nm, ob in obl:
        if nm == obligation:
            if not bool(ob):
                return True, dict(observation=plain_obs(obs), failing=[n for n, o in obl if not bool(o)])
            return False, "obligation holds natively"
    return False, "obligation not produced natively"


def write_replay(prop, h, c, detail):
    d = os.path.join(VERIF, "replays")
    os.makedirs(d, exist_ok=True)
    body = dict(property=prop, harness=h.key, params={k: v for k, v in h.params.items() if isinstance(v, (int, str, bool, float))},
                obligation=c["obligation"], inputs=c["inputs"], detail=detail,
                how="cd /verif && ./check %s --replay <this file>" % prop)
    digest = hashlib.sha1(json.dumps(body, sort_keys=True, default=str).encode()).hexdigest()[:10]
    import re as _re

    safe = _re.sub(r"[^A-Za-z0-9_.+-]+", "-", c["obligation"])[:80]
    path = os.path.join(d, "%s_%s_%s_%s.json" % (prop, h.name, safe, digest))
    with open(path, "w") as f:
        json.dump(body, f, indent=1, default=str)
    return path


def do_replay(path):
    body = json.load(open(path))
    h = HARNESSES[body["harness"]]
    ok, detail = replay_native(h, body["inputs"], body["obligation"])
    print(json.dumps(dict(reproduced=ok, detail=detail), indent=1, default=str))
    if ok:
        print("VIOLATION property=%s replay=%s" % (body["property"], path))
        return 1
    return 0


def source_files(*rel):
    out = []
    for r in rel:
        p = r if os.path.isabs(r) else os.path.join(REPO, r)
        out.append(dict(file=r, git_blob=git_blob(p)))
    return out


def run_check(mod, tier, seed, args):
    """generic main of a check module: mod.PROP, mod.harnesses(tier) -> [(Harness, budget_s)], mod.meta(chk)"""
    chk = Check(mod.PROP, tier, seed)
    if hasattr(mod, "meta"):
        mod.meta(chk, tier)
    if hasattr(mod, "pre"):
        mod.pre(chk, tier)
    for h, budget in mod.harnesses(tier):
        if args is not None and args.only and args.only not in h.name:
            continue
        scale = args.budget_scale if args is not None else 1.0
        chk.run(h, budget_s=budget * scale)
    if hasattr(mod, "post") and not (args is not None and args.only):
        mod.post(chk, tier)
    return chk.finish()


# ------------------------------------------------------- event construction
def truth(c):
    """python truth of a logic value: forks in symbolic mode"""
    if isinstance(c, bool):
        return c
    if isinstance(c, S.SBool):
        c = c.z
    return E.ENG.branch(c)


def mk_event(x, us, dur_us, data, id=None, aligned=True, off=0, dur_aligned=None):
    """a real aw_core Event whose instant / duration are the given microsecond terms (aligned: known to be
    whole milliseconds by construction; dur_aligned overrides it for the duration)"""
    from aw_core.models import Event

    return Event(id=id, timestamp=x.dt_us(us, off, aligned), duration=x.td_us(dur_us, aligned if dur_aligned is None else dur_aligned), data=data)


def ev_start(e):
    return S.dt_us(e.timestamp)


def ev_dur(e):
    return S.td_us(e.duration)


def ev_end(e):
    return S.dt_us(e.timestamp) + S.td_us(e.duration)


def zv(v):
    """z3 term / python value of a data value (SInt tag or plain)"""
    if isinstance(v, S.SInt):
        return v.z
    return v
