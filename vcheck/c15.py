"""C15 — union_no_overlap keeps list one intact and only the uncovered parts of list two."""
import sys

from symex import shadows as S
from symex.shadows import And, Or, Not, Implies, If, Sum
from . import common as C
from .common import Harness, ev_start, ev_dur, ev_end
from .c09 import mklist, unmodified

import aw_core.models as M
import aw_transform.union_no_overlap  # noqa

UN = sys.modules["aw_transform.union_no_overlap"]

PROP = "C15"
DATA = lambda pfx, i: {"uid": "%s%d" % (pfx, i), "extra": [1, {"n": None}]}  # noqa


def install():
    C.stub(M, "int", S.sym_int)
    C.shadow_module(UN)


def h_unov(x, n1, n2, twin=False, us=False):
    A, TA, DA = mklist(x, "a", n1, True, ordered=True, us=us)
    B, TB, DB = mklist(x, "b", n2, True, ordered=True, us=us)
    origA, origB = list(A), list(B)
    out = UN.union_no_overlap(A, B)
    if twin:
        return [("reached-len%d" % len(out), False)], [len(out)]
    t = x.zint("tq")
    So = [ev_start(o) for o in out]
    Eo = [ev_end(o) for o in out]
    obl = []
    for i in range(n1):
        mine = [k for k, o in enumerate(out) if o.data.get("uid") == "a%d" % i]
        obl.append(("list-one-event-kept-exactly-once-a%d" % i, len(mine) == 1))
        for k in mine:
            obl.append(("list-one-event-unchanged-a%d" % i, And(So[k] == TA[i], Eo[k] == TA[i] + DA[i], out[k].data == DATA("a", i), out[k].id == "a-id-%d" % i)))
    in_a = Or([And(TA[i] <= t, t < TA[i] + DA[i]) for i in range(n1)])
    for j in range(n2):
        mine = [k for k, o in enumerate(out) if o.data.get("uid") == "b%d" % j]
        cnt = Sum([If(And(So[k] <= t, t < Eo[k]), 1, 0) for k in mine])
        want = If(And(TB[j] <= t, t < TB[j] + DB[j], Not(in_a)), 1, 0)
        obl.append(("list-two-uncovered-part-exactly-once-b%d" % j, cnt == want))
        # a zero-length event of list two: kept (once, as it is) unless it lies strictly inside an event of list
        # one.  Exactly on an edge of a list-one event it counts as not covered — the statement does not fix
        # this; it is the reading under which the implementation is exact, and it is stated in the evidence
        zl = Sum([If(And(So[k] == TB[j], Eo[k] == TB[j]), 1, 0) for k in mine])
        in_gap = And([Or(TB[j] <= TA[i], TB[j] >= TA[i] + DA[i]) for i in range(n1)])  # edges included: open-interval reading of 'covered'
        strictly_inside = Or([And(TA[i] < TB[j], TB[j] < TA[i] + DA[i]) for i in range(n1)])
        obl.append(("zero-length-list-two-event-in-a-gap-kept-b%d" % j, Implies(And(DB[j] == 0, in_gap), zl == 1)))
        obl.append(("zero-length-list-two-event-inside-list-one-dropped-b%d" % j, Implies(And(DB[j] == 0, strictly_inside), len(mine) == 0)))
        for k in mine:
            obl.append(("piece-inside-source-b%d" % j, And(TB[j] <= So[k], So[k] <= Eo[k], Eo[k] <= TB[j] + DB[j])))
            obl.append(("piece-keeps-data-b%d" % j, out[k].data == DATA("b", j)))
    obl.append(("only-known-events", all(o.data.get("uid") in ["a%d" % i for i in range(n1)] + ["b%d" % j for j in range(n2)] for o in out)))
    # overlap for a positive time
    obl.append(("no-two-outputs-overlap", And([Or(Eo[a] <= So[b], Eo[b] <= So[a], Eo[a] <= So[a], Eo[b] <= So[b]) for a in range(len(out)) for b in range(a + 1, len(out))])))
    inn = Or([in_a] + [And(TB[j] <= t, t < TB[j] + DB[j]) for j in range(n2)])
    outc = Or([And(So[k] <= t, t < Eo[k]) for k in range(len(out))])
    obl.append(("covered-time-is-the-union", S.Iff(inn, outc)))
    obl.append(("list-one-unmodified", unmodified(A, TA, DA, "a", origA)))
    obl.append(("list-two-unmodified", unmodified(B, TB, DB, "b", origB)))
    if us:
        # with sub-millisecond ends in list one the exact form of 'no two outputs overlap' (and with it the
        # exactly-once count inside the shared sliver) is a known finding: a piece of a list-two event that
        # begins where a list-one event ends can only start on a whole millisecond; what must still hold:
        sliver = Or([And(TA[i] + DA[i] - 1000 < t, t < TA[i] + DA[i]) for i in range(n1)])
        for j in range(n2):
            mine = [k for k, o in enumerate(out) if o.data.get("uid") == "b%d" % j]
            cnt = Sum([If(And(So[k] <= t, t < Eo[k]), 1, 0) for k in mine])
            want = If(And(TB[j] <= t, t < TB[j] + DB[j], Not(in_a)), 1, 0)
            obl.append(("list-two-uncovered-part-exactly-once-outside-the-last-ms-of-list-one-events-b%d" % j, Implies(Not(sliver), cnt == want)))
        obl.append(("outputs-overlap-by-less-than-1ms", And([Or(Eo[a] - So[b] < 1000, Eo[b] - So[a] < 1000, Eo[a] <= So[a], Eo[b] <= So[b]) for a in range(len(out)) for b in range(a + 1, len(out))])))
    obs = [len(out)] + [[o.data.get("uid"), So[k], Eo[k]] for k, o in enumerate(out)]
    return obl, obs


def harnesses(tier):
    install()
    hs = []
    if tier == "quick":
        spec = [(1, 1, 60), (2, 1, 60), (1, 2, 60), (2, 2, 300), (4, 1, 300), (5, 1, 600)]
    else:
        spec = [(1, 1, 60), (2, 1, 60), (1, 2, 60), (2, 2, 300), (4, 1, 300), (5, 1, 600), (6, 1, 1800), (3, 2, 900), (2, 3, 900), (3, 3, 3600), (4, 3, 3600), (3, 4, 3600), (4, 4, 7200)]
    for n1, n2 in ([(1, 1), (2, 1), (1, 2)] if tier == "quick" else [(1, 1), (2, 1), (1, 2), (2, 2), (3, 1)]):
        hs.append((Harness(PROP, "union_no_overlap-%d+%d-microsecond-durations" % (n1, n2), h_unov, dict(n1=n1, n2=n2, us=True), "union_no_overlap on lists of %d and %d events whose durations are any whole number of microseconds" % (n1, n2), split_depth=7), 1800))
    hs.append((Harness(PROP, "union_no_overlap-1+1-float-semantics", C.with_floats(h_unov), dict(n1=1, n2=1), "union_no_overlap 1+1 with IEEE double semantics for any float arithmetic, durations < 2^17 ms in binary range pieces", split_depth=7, fresh_solver=True), 600))
    for n1, n2, budget in spec:
        hs.append((Harness(PROP, "union_no_overlap-%d+%d" % (n1, n2), h_unov, dict(n1=n1, n2=n2), "union_no_overlap on sorted non-overlapping lists of %d and %d events" % (n1, n2), split_depth=7, cross_solver=2), budget))
    return hs


def meta(chk, tier):
    chk.functions = C.source_files("aw_transform/union_no_overlap.py", "aw_core/models.py", "/venv/lib/python3.12/site-packages/timeslot/timeslot.py")
    chk.functions.append(dict(functions=["union_no_overlap", "_split_event", "timeslot.Timeslot.intersects/overlaps/contains", "aw_core.models.Event"]))
    chk.bounds = [
        "list sizes up to 2+2, 4+1 and 5+1 (quick), 4+4 and 6+1 (thorough); both lists sorted by timestamp and internally non-overlapping (touching allowed)",
        "timestamps any multiple of 1 ms in [1970, ~2103]; durations any multiple of 1 ms in [0, 1e10 ms], zero-length included",
        "query point t: unconstrained integer microsecond; intervals half-open for the exactly-once count",
    ]
    chk.stubs = ["aw_core.models.int -> sym_int", "logging disabled"]
    chk.assumptions = ["the main harnesses use whole-millisecond durations; microsecond durations are covered by the *-microsecond-durations harnesses, where the exact no-overlap / exactly-once obligations are known findings (overlap of less than 1 ms where a list-one event ends between two milliseconds) and the 1 ms-tolerant form must hold", "a zero-length list-two event exactly on an edge of a list-one event counts as not covered (kept): the statement leaves this open; it is the reading under which the current implementation is exact", "two outputs 'overlap' only if they share a positive amount of time (zero-length outputs never overlap anything)"]


def post(chk, tier):
    h = Harness(PROP, "reach-twin-2+2", h_unov, dict(n1=2, n2=2, twin=True), "reachability twin")
    r = C.run_harness(h, budget_s=120, seed=chk.seed)
    names = sorted({c["obligation"] for c in r.cex})
    ok = set(names) >= {"reached-len4", "reached-len5"}
    chk.vacuity.append(dict(twin="union_no_overlap-2+2 with obligation False", reached=names, ok=ok))
    if not ok:
        chk.harness_errors.append("vacuity: reachability twin reached only %s" % names)


def main(tier, seed, args):
    return C.run_check(sys.modules[__name__], tier, seed, args)
