"""C18 — buffered writes are flushed once they are about ten seconds old (harness shared with C06)."""
import sys

from . import common as C
from . import c06

PROP = "C18"


def harnesses(tier):
    return c06.harnesses(tier, prop=PROP, fn=c06.h_c18)


def meta(chk, tier):
    c06.meta(chk, tier)
    chk.bounds = ["single event write from an arbitrary state: last flush at instant c, first clock reading c + delta1 with delta1 symbolic in [0, 1000 s]; 'about ten seconds' = more than 11 s must flush, less than 10 s with a low counter must keep buffering (sensitivity)"] + chk.bounds[1:]


def main(tier, seed, args):
    return C.run_check(sys.modules[__name__], tier, seed, args)
