"""C03 — time-window reads return exactly the intersecting events, newest first, limited."""
import sys

import z3

from symex import shadows as S
from symex.shadows import And, Or, Not, If, Sum, Implies
from . import common as C
from .common import Harness
from . import store as ST
from .store import Row, row_of_event

PROP = "C03"
TOL = 2000  # microseconds: the property's edge tolerance ("about 2 ms")
U_MAX = ST.T_MAX_MS * 1000


def h_window(x, bk, n, has_start, has_end, clips=False, via_api=False, rewrite=False):
    A = ST.sym_rows(x, "a", n)
    B = ST.sym_rows(x, "b", 1)
    ST.distinct(x, [r.id for r in A + B])
    be = ST.backend(bk)
    ds = be.make(x, {"A": A if not via_api else [], "B": B})
    try:
        if via_api:
            # the stored events are written through the API (their encoding is part of what is checked)
            for i, r in enumerate(A):
                ret = ds["A"].insert(ST.event_of_row(x, r))
                A[i] = Row(C.zv(ret.id), r.start, r.dur, r.tag)
        ws = x.zint("ws", 0, U_MAX) if has_start else None
        we = x.zint("we", 0, U_MAX) if has_end else None
        if has_start and has_end:
            x.assume(ws <= we)
        ws_off = x.zint("ws_off", -840, 840) if has_start else 0
        we_off = x.zint("we_off", -840, 840) if has_end else 0
        start = x.dt_us(ws, ws_off, False) if has_start else None
        end = x.dt_us(we, we_off, False) if has_end else None
        lim = x.zint("limit", -2, n + 1)
        b = ds["A"]

        def reads(sfx):
            # record what reaches the backend (window rounding in Bucket.get)
            seen = []
            st = ds.storage_strategy
            orig = st.get_events

            def rec(bucket_id, limit, starttime=None, endtime=None):
                seen.append((starttime, endtime))
                return orig(bucket_id, limit, starttime, endtime)

            st.get_events = rec
            full = b.get(-1, start, end)
            limited = b.get(x.wrap(lim), start, end)
            st.get_events = orig
            count = b.get_eventcount(start, end)
            obl = []
            # window rounding
            if seen:
                s2, e2 = seen[0]
                if has_start:
                    obl.append(("start-edge-floored-to-ms", S.dt_us(s2) == ws - ws % 1000))
                if has_end:
                    obl.append(("end-edge-pushed-to-next-ms", And(S.dt_us(e2) > we, S.dt_us(e2) <= we + 1000, S.dt_us(e2) % 1000 == 0)))

            def must(r):
                return And((r.end >= ws + TOL) if has_start else True, (r.start <= we - TOL) if has_end else True)

            def may(r):
                return And((r.end >= ws - TOL) if has_start else True, (r.start <= we + TOL) if has_end else True)

            got = [row_of_event(e) for e in full]
            for i, r in enumerate(A):
                cnt = Sum([If(g.id == r.id, 1, 0) for g in got])
                obl.append(("must-events-returned-once-%d" % i, Implies(must(r), cnt == 1)))
                obl.append(("outside-events-not-returned-%d" % i, Implies(Not(may(r)), cnt == 0)))
                obl.append(("no-duplicates-%d" % i, cnt <= 1))
            obl.append(("only-events-of-this-bucket", And([Or([g.id == r.id for r in A]) for g in got])))
            obl.append(("newest-first", ST.sorted_desc(got)))
            if not clips:
                obl.append(("returned-events-equal-stored", And([Or([g.same(r) for r in A]) for g in got])))
            else:
                for g in got:
                    conds = []
                    for r in A:
                        lo = If(r.start >= ws, r.start, ws) if has_start else r.start
                        hi = If(r.end <= we, r.end, we) if has_end else r.end
                        conds.append(And(g.id == r.id, g.tag == r.tag, g.start >= r.start, g.end <= r.end, g.start - lo <= TOL, lo - g.start <= TOL, g.end - hi <= TOL, hi - g.end <= TOL))
                    obl.append(("clipped-event-is-stored-event-cut-to-window", Or(conds)))
            # limit
            lg = [row_of_event(e) for e in limited]
            k = len(lg)
            obl.append(("limit-0-none", Implies(lim == 0, k == 0)))
            obl.append(("negative-limit-all", Implies(lim < 0, k == len(got))))
            obl.append(("positive-limit-keeps-min(n,len)", Implies(lim > 0, k == If(lim <= len(got), lim, len(got)))))
            if k <= len(got):
                obl.append(("limit-keeps-the-newest-prefix", And([lg[i].start == got[i].start for i in range(k)])))
            else:
                obl.append(("limit-keeps-the-newest-prefix", False))
            # count
            nmust = Sum([If(must(r), 1, 0) for r in A])
            nmay = Sum([If(may(r), 1, 0) for r in A])
            cz = C.zv(count)
            obl.append(("count-at-least-must", cz >= nmust))
            obl.append(("count-at-most-may", cz <= nmay))
            return [(nm + sfx, o) for nm, o in obl], [len(got), k, cz]

        obl, obs = reads("")
        if rewrite:
            # one stored event is rewritten in place (same id, new instant and length), then the same window is
            # read again through the same Bucket object: the reads must reflect the store as it is now
            nw = ST.sym_rows(x, "w", 1, ids=False)[0]
            b.replace(x.wrap(A[0].id), ST.event_of_row(x, nw))
            A[0] = Row(A[0].id, nw.start, nw.dur, nw.tag)
            obl2, obs2 = reads("-after-rewrite")
            obl, obs = obl + obl2, obs + obs2
        return obl, obs
    finally:
        be.close()


def harnesses(tier):
    ST.install_common()
    ST.install_sqlite()
    hs = []
    sizes = [1, 2] if tier == "quick" else [1, 2, 3]
    ST.install_peewee()
    for bk in ["memory", "sqlite", "peewee"]:
        for n in sizes:
            for hs_, he_ in ((True, True), (True, False), (False, True), (False, False)):
                if n == 3 and not (hs_ and he_):
                    continue
                if bk == "peewee" and n >= 2 and hs_ and he_:
                    continue  # the clipping obligations with both edges and 2+ events exceed z3's 120 s per query (one 'unknown'): not claimed
                if bk == "peewee" and n >= 3:
                    continue
                hs.append((Harness(PROP, "%s-n%d-%s%s" % (bk, n, "S" if hs_ else "-", "E" if he_ else "-"), h_window, dict(bk=bk, n=n, has_start=hs_, has_end=he_, clips=(bk == "peewee")),
                                   "%s backend: windowed get / limited get / eventcount over %d stored events (window start %s, end %s)" % (bk, n, "given" if hs_ else "absent", "given" if he_ else "absent"), split_depth=7), 3600))
    for bk in ["memory", "sqlite"]:  # (peewee: the doubled clipping obligations exceed z3's per-query limit — not claimed)
        hs.append((Harness(PROP, "%s-n1-SE-reread-after-rewrite" % bk, h_window, dict(bk=bk, n=1, has_start=True, has_end=True, clips=(bk == "peewee"), rewrite=True),
                           "%s backend: windowed get / eventcount, then the stored event is replaced and the same window is read again through the same Bucket object" % bk, split_depth=7), 1800))
    for bk in ["memory", "sqlite", "peewee"]:
        hs.append((Harness(PROP, "%s-n1-SE-written-through-api" % bk, h_window, dict(bk=bk, n=1, has_start=True, has_end=True, clips=(bk == "peewee"), via_api=True),
                           "%s backend: one event inserted through the API (durations up to 24 h inclusive), then windowed get / eventcount" % bk, split_depth=7), 1800))
    return hs


def meta(chk, tier):
    chk.functions = C.source_files("aw_datastore/datastore.py", "aw_datastore/storages/memory.py", "aw_datastore/storages/sqlite.py")
    chk.functions.append(dict(functions=["Bucket.get (window rounding)", "Bucket.get_eventcount", "MemoryStorage.get_events/get_eventcount", "SqliteStorage.get_events/get_eventcount (SQL through symex.sqlstub)"]))
    chk.bounds = [
        "stored events N <= %d (+1 in another bucket): instants multiples of 1 ms, durations any integer us in [0, 24 h]; any overlap / nesting / adjacency / zero length" % (2 if tier == "quick" else 3),
        "window: start / end any integer microsecond in [1970, ~2103], each optionally absent, start <= end, each with its own symbolic UTC offset (whole minutes, +-14 h)",
        "limit: every integer in [-2, N+1]",
        "edge tolerance 2 ms: MUST = reaches >= 2 ms into the window, MAY = within 2 ms of it",
    ]
    chk.stubs = ["as C02; window rounding arithmetic (int(us/1000)) in exact integer arithmetic (its IEEE form is C13's ms-floor lemma)"]
    chk.assumptions = ["events longer than 24 h are outside the property", "peewee (the clipping backend): N=1 with every window shape, N=2 with at most one window edge; SQLite's julianday/strftime date math is a contract stub (rendered end instant within 1 ms of timestamp+duration, arbitrary inside that band)"]


def main(tier, seed, args):
    return C.run_check(sys.modules[__name__], tier, seed, args)
