"""C11 — a query means what its text says: literals, variables and calls compose."""
import sys
from copy import deepcopy
from datetime import datetime, timedelta, timezone

import z3

from symex import shadows as S
from symex import sstr
from symex.engine import Unsupported
from symex.shadows import And, Or, Not
from . import common as C
from .common import Harness
from . import c17

import aw_core.models as M
import aw_query.query2 as Q2
import aw_query.functions as QF
import aw_transform as AT
from aw_transform.classify import Rule
from aw_query.exceptions import QueryException
from aw_core.models import Event

PROP = "C11"
T0 = c17.T0
T1 = T0 + timedelta(hours=1)


# ------------------------------------------------------------ AST + leaves
class Leafs:
    """instantiates the symbolic leaves of a program template"""

    def __init__(self, x):
        self.x = x
        self.n = 0

    def name(self, kind):
        self.n += 1
        return "%s%d" % (kind, self.n)

    def digit(self):
        nm = self.name("dg")
        if not self.x.sym:
            return chr(self.x.values[nm])
        return self.x.zint(nm, ord("0"), ord("9"))

    def strchar(self, quote):
        nm = self.name("ch")
        if not self.x.sym:
            return chr(self.x.values[nm])
        c = self.x.zint(nm, 0, 0x10FFFF)
        self.x.assume(z3.Or(c < 0xD800, c > 0xDFFF))
        self.x.assume(c != ord(";"))
        return c

    def strchars(self, quote, n):
        """the characters of a string literal's value and, per character, whether it is the literal's own
        delimiter (written escaped).  A backslash denotes itself unless it precedes the delimiter; to keep the
        text unambiguous a backslash in the value is never last and never followed by the delimiter or another
        backslash."""
        chars = [self.strchar(quote) for _ in range(n)]
        flags = []
        for i, c in enumerate(chars):
            if self.x.sym:
                nxt = chars[i + 1] if i + 1 < n else None
                if nxt is None:
                    self.x.assume(c != 92)
                else:
                    self.x.assume(z3.Implies(c == 92, z3.And(nxt != ord(quote), nxt != 92)))
                flags.append(C.truth(c == ord(quote)))
            else:
                flags.append(c == quote)
        return chars, flags

    def ws(self):
        nm = self.name("ws")
        if not self.x.sym:
            return chr(self.x.values[nm])
        c = self.x.zint(nm, 0, 0x10FFFF)
        self.x.assume(sstr.in_ranges(c, sstr.ranges("isspace")))
        return c


def I(n=1):
    return ("int", n)


def St(n=1, quote=None):
    return ("str", quote, n)


def L(*items):
    return ("list", list(items))


def D(*pairs):
    return ("dict", list(pairs))


def V(name):
    return ("var", name)


def F(name, *args):
    return ("call", name, list(args))


def K(value):
    """concrete literal"""
    return ("lit", value)


def EV(bucket="b1"):
    return F("query_bucket", K(bucket))


def instantiate(node, lf):
    """replace leaf templates by leaf instances carrying their characters"""
    k = node[0]
    if k == "int":
        return ("int", [lf.digit() for _ in range(node[1])])
    if k == "str":
        quote = node[1]
        if quote is None:
            quote = ['"', "'"][lf.x.choice(lf.name("qt"), 2)]
        chars, flags = lf.strchars(quote, node[2])
        return ("str", quote, chars, flags)
    if k == "list":
        return ("list", [instantiate(n, lf) for n in node[1]])
    if k == "dict":
        return ("dict", [(key, instantiate(v, lf)) for key, v in node[1]])
    if k == "call":
        return ("call", node[1], [instantiate(a, lf) for a in node[2]])
    return node


class Printer:
    def __init__(self, slot_chars):
        self.slot_chars = slot_chars  # dict slot index -> list of chars
        self.nslots = 0
        self.out = []

    def slot(self):
        self.out += self.slot_chars.get(self.nslots, [])
        self.nslots += 1

    def sep(self, ch):
        self.slot()
        self.out.append(ch)
        self.slot()

    def lit(self, v):
        if isinstance(v, bool):
            self.out += list("true" if v else "false")
        elif isinstance(v, int):
            self.out += list(str(v))
        elif isinstance(v, str):
            q = '"' if '"' not in v else "'"
            assert q not in v and "\\" not in v and ";" not in v
            self.out += [q] + list(v) + [q]
        elif isinstance(v, list):
            self.out.append("[")
            for i, it in enumerate(v):
                if i:
                    self.sep(",")
                self.lit(it)
            self.out.append("]")
        elif isinstance(v, dict):
            self.out.append("{")
            for i, (k, it) in enumerate(v.items()):
                if i:
                    self.sep(",")
                self.lit(k)
                self.sep(":")
                self.lit(it)
            self.out.append("}")
        else:
            raise TypeError(v)

    def expr(self, node):
        k = node[0]
        if k == "int":
            self.out += node[1]
        elif k == "str":
            self.out.append(node[1])
            for c, esc in zip(node[2], node[3]):
                self.out += ["\\", node[1]] if esc else [c]
            self.out.append(node[1])
        elif k == "lit":
            self.lit(node[1])
        elif k == "var":
            self.out += list(node[1])
        elif k == "list":
            self.out.append("[")
            for i, it in enumerate(node[1]):
                if i:
                    self.sep(",")
                self.expr(it)
            self.out.append("]")
        elif k == "dict":
            self.out.append("{")
            for i, (key, it) in enumerate(node[1]):
                if i:
                    self.sep(",")
                self.lit(key)
                self.sep(":")
                self.expr(it)
            self.out.append("}")
        elif k == "call":
            self.out += list(node[1]) + ["("]
            for i, a in enumerate(node[2]):
                if i:
                    self.sep(",")
                self.expr(a)
            self.out.append(")")
        else:
            raise TypeError(node)

    def program(self, stmts):
        for i, (name, e) in enumerate(stmts):
            if i:
                self.sep(";")
            self.out += list(name)
            self.sep("=")
            self.expr(e)
        return self.out


# ------------------------------------------------------ reference evaluator
def chars_value(chars):
    return sstr.mk(chars)


def digits_value(chars):
    if all(isinstance(c, str) for c in chars):
        return int("".join(chars))
    v = 0
    for c in chars:
        v = v * 10 + ((ord(c) if isinstance(c, str) else c) - ord("0"))
    return S.mkint(v)


def ref_table(ds):
    def find_bucket(filter_str, hostname=None):
        for b in ds.buckets():
            if filter_str in b:
                if hostname:
                    if ds[b].metadata()["hostname"] == hostname:
                        return b
                else:
                    return b
        raise LookupError("no bucket")

    rules = lambda classes: [(c, Rule(r)) for c, r in classes]  # noqa
    return {
        "find_bucket": find_bucket,
        "query_bucket": lambda name: ds[name].get(-1, T0, T1),
        "query_bucket_eventcount": lambda name: ds[name].get_eventcount(T0, T1),
        "filter_keyvals": lambda e, k, v: AT.filter_keyvals(e, k, v, False),
        "exclude_keyvals": lambda e, k, v: AT.filter_keyvals(e, k, v, True),
        "filter_keyvals_regex": lambda e, k, r: AT.filter_keyvals_regex(e, k, r),
        "filter_period_intersect": lambda a, b: AT.filter_period_intersect(a, b),
        "period_union": lambda a, b: AT.period_union(a, b),
        "limit_events": lambda e, n: AT.limit_events(e, n),
        "merge_events_by_keys": lambda e, k: AT.merge_events_by_keys(e, k),
        "chunk_events_by_key": lambda e, k: AT.chunk_events_by_key(e, k),
        "sort_by_timestamp": lambda e: AT.sort_by_timestamp(e),
        "sort_by_duration": lambda e: AT.sort_by_duration(e),
        "sum_durations": lambda e: AT.sum_durations(e),
        "concat": lambda a, b: AT.concat(a, b),
        "union_no_overlap": lambda a, b: AT.union_no_overlap(a, b),
        "flood": lambda e: AT.flood(e),
        "split_url_events": lambda e: AT.split_url_events(e),
        "simplify_window_titles": lambda e, k: AT.simplify_string(e, key=k),
        "nop": lambda: 1,
        "categorize": lambda e, c: AT.categorize(e, rules(c)),
        "tag": lambda e, c: AT.tag(e, rules(c)),
    }


def ref_eval(node, env, table):
    k = node[0]
    if k == "int":
        return digits_value(node[1])
    if k == "str":
        return chars_value(node[2])
    if k == "lit":
        return deepcopy(node[1])
    if k == "var":
        return env[node[1]]
    if k == "list":
        return [ref_eval(n, env, table) for n in node[1]]
    if k == "dict":
        return {key: ref_eval(v, env, table) for key, v in node[1]}
    if k == "call":
        args = [deepcopy(ref_eval(a, env, table)) for a in node[2]]
        return table[node[1]](*args)
    raise TypeError(node)


def ref_program(stmts, ds):
    env = {"True": True, "False": False, "true": True, "false": False, "NAME": "name", "STARTTIME": T0.isoformat(), "ENDTIME": T1.isoformat()}
    table = ref_table(ds)
    for name, e in stmts:
        env[name] = ref_eval(e, env, table)
    return env["RETURN"]


def sym_equal(a, b):
    """logic value of structural equality between a result and the reference value"""
    if isinstance(a, Event) or isinstance(b, Event):
        if not (isinstance(a, Event) and isinstance(b, Event)):
            return False
        return And(S.dt_us(a.timestamp) == S.dt_us(b.timestamp), S.td_us(a.duration) == S.td_us(b.duration), sym_equal(a.data, b.data), sym_equal(a.id, b.id))
    if isinstance(a, (S.SInt, S.SBool)) or isinstance(b, (S.SInt, S.SBool)):
        if isinstance(a, bool) != isinstance(b, bool) and not (isinstance(a, S.SBool) or isinstance(b, S.SBool)):
            return False
        r = a == b
        return S.B(r) if not isinstance(r, bool) else r
    if isinstance(a, str) or isinstance(b, str):
        if not (isinstance(a, str) and isinstance(b, str)):
            return False
        r = a == b
        return S.B(r) if not isinstance(r, bool) else r
    if isinstance(a, bool) or isinstance(b, bool):
        return isinstance(a, bool) and isinstance(b, bool) and a == b
    if isinstance(a, (list, tuple)):
        if not isinstance(b, (list, tuple)) or len(a) != len(b):
            return False
        return And([sym_equal(p, q) for p, q in zip(a, b)])
    if isinstance(a, dict):
        if not isinstance(b, dict) or len(a) != len(b):
            return False
        conds = []
        for key in a:
            if key not in b:
                return False
            conds.append(sym_equal(a[key], b[key]))
        return And(conds)
    if isinstance(a, timedelta) or isinstance(b, timedelta):
        if not (isinstance(a, timedelta) and isinstance(b, timedelta)):
            return False
        return S.td_us(a) == S.td_us(b)
    if isinstance(a, datetime) or isinstance(b, datetime):
        if not (isinstance(a, datetime) and isinstance(b, datetime)):
            return False
        return S.dt_us(a) == S.dt_us(b)
    return type(a) is type(b) and a == b


def show(v):
    if isinstance(v, Event):
        return ["event", show(v.timestamp), show(v.duration), show(v.data), show(v.id)]
    if isinstance(v, S.SInt):
        return v.z
    if isinstance(v, sstr.SStr):
        return ["str"] + v.term_chars()
    if isinstance(v, str):
        return ["str"] + [ord(c) for c in v]
    if isinstance(v, (list, tuple)):
        return [show(i) for i in v]
    if isinstance(v, dict):
        return {str(k): show(i) for k, i in v.items()}
    if isinstance(v, timedelta):
        return S.td_us(v)
    if isinstance(v, datetime):
        return S.dt_us(v)
    return v


# ------------------------------------------------------------------ harness
REJECTED_FIRST = [
    "RETURN = " + "[" * 150 + "1,," + "]" * 150 + ";",  # malformed, deep inside nested lists
    "RETURN = " + "{'a':" * 150 + "nosuch(1)" + "}" * 150 + ";",  # unknown function, deep inside nested dicts
    "RETURN = " + "nop(" * 150 + "'x" + ")" * 150 + ";",  # unterminated string, deep inside nested calls
    "x = 1; y = x; RETURN = limit_events(y, 'one');",  # type error after assignments
]


def h_program(x, shapes, ws, after_rejected=0):
    """shapes: list of program templates; one is chosen by forking.  ws: 'none' | 'single' (a single
    space in every separator slot) | 'sym1' / 'sym2' (1 / 2 arbitrary whitespace characters in one
    separator slot chosen by forking)"""
    si = x.choice("shape", len(shapes)) if len(shapes) > 1 else 0
    template = shapes[si]
    lf = Leafs(x)
    stmts = [(name, instantiate(e, lf)) for name, e in template]
    # count slots
    p0 = Printer({})
    p0.program(stmts)
    nslots = p0.nslots
    slot_chars = {}
    if ws == "single":
        slot_chars = {i: [" "] for i in range(nslots)}
    elif ws in ("sym1", "sym2") and nslots:
        which = x.choice("slot", nslots)
        slot_chars = {which: [lf.ws() for _ in range(1 if ws == "sym1" else 2)]}
    text = sstr.mk(Printer(slot_chars).program(stmts))
    idents = set()
    for name, e in template:
        idents |= c17.identifiers(name)
    c17.candidates(idents | collect_idents(template))
    ds = c17.make_datastore()
    ds_ref = c17.make_datastore()
    want = ref_program(stmts, ds_ref)
    for _ in range(after_rejected):
        # queries rejected earlier in the same process must leave no trace in the evaluation of this one
        for bad in REJECTED_FIRST:
            try:
                Q2.query("earlier", bad, T0, T1, ds)
            except QueryException:
                pass
    try:
        got = Q2.query("name", text, T0, T1, ds)
        outcome = "value"
    except QueryException as e:
        got = None
        outcome = type(e).__name__
    except Exception as e:  # noqa
        got = None
        outcome = "escape:" + type(e).__name__
    if outcome != "value":
        return [("query-returns-a-value (got %s)" % outcome.split(":")[0], False)], [si, outcome]
    eq = sym_equal(got, want)
    return [("result-equals-denoted-value", eq)], [si, "value", show(got)]


def collect_idents(template):
    out = set()

    def walk(n):
        if n[0] == "var":
            out.add(n[1])
        elif n[0] == "call":
            out.add(n[1])
            for a in n[2]:
                walk(a)
        elif n[0] == "list":
            for a in n[1]:
                walk(a)
        elif n[0] == "dict":
            for k, a in n[1]:
                out.add(k)
                walk(a)
        elif n[0] == "lit":
            v = n[1]

            def w2(v):
                if isinstance(v, str):
                    out.add(v)
                elif isinstance(v, list):
                    for i in v:
                        w2(i)
                elif isinstance(v, dict):
                    for k, i in v.items():
                        out.add(k)
                        w2(i)

            w2(v)

    for _, e in template:
        walk(e)
    return out


R = "RETURN"
RULES = K([[["Work"], {"regex": "t"}], [["Work", "Sub"], {"regex": "T", "ignore_case": True}], [["Other"], {"regex": "zzz"}]])
TAGS = K([["tag1", {"regex": "t"}], ["tag2", {"regex": "zzz"}]])

LITERALS = [
    [(R, I(1))], [(R, I(2))], [(R, St(1))], [(R, St(2, "'"))], [(R, St(0))],
    [(R, L())], [(R, L(I(1)))], [(R, L(I(1), St(1)))], [(R, L(L(I(1)), St(1, "'")))], [(R, L(L(L(I(1)))))],
    [(R, D())], [(R, D(("k", I(1))))], [(R, D(("a", L(I(1))), ("b", D(("c", St(1))))))], [(R, L(D(("k", L(I(1), I(1))))))],
    [(R, D(("a", St(2)), ("b", St(1, "'")), ("c", I(1))))],
    [(R, L(St(1), St(1, "'"), St(1)))],
    [(R, V("true"))], [(R, L(V("True"), V("false")))],
]
VARIABLES = [
    [("x", I(1)), (R, V("x"))],
    [("x", I(1)), ("x", St(1)), (R, V("x"))],
    [("x", L(I(1))), ("y", V("x")), (R, L(V("y"), V("x")))],
    [("_a1", St(1)), ("b_2", L(V("_a1"), I(1))), (R, D(("k", V("b_2")), ("j", V("_a1"))))],
    [("x", I(1)), ("y", V("x")), ("x", I(2)), (R, L(V("x"), V("y")))],
    [(R, I(1)), ("x", V("RETURN")), (R, L(V("x"), I(1)))],
    # the same statement text again after a rebinding
    [("a", I(1)), ("b", L(V("a"), K("x"))), ("a", I(1)), ("b", L(V("a"), K("x"))), (R, V("b"))],
    [("a", I(1)), (R, V("a")), ("a", St(1)), (R, V("a"))],
    [("a", L(I(1))), ("b", F("concat", V("a"), V("a"))), ("a", L(St(1))), ("b", F("concat", V("a"), V("a"))), (R, L(V("a"), V("b")))],
]
CALLS = [
    [(R, F("nop"))],
    [(R, L(F("nop"), I(1)))],
    [(R, D(("k", F("nop"))))],
    [(R, F("concat", L(I(1)), L(I(1))))],
    [(R, F("concat", L(I(1)), L(I(1), I(1))))],
    [(R, F("concat", L(I(1), I(1)), L(St(1))))],
    [(R, F("concat", L(), L(I(1))))],
    [(R, F("concat", L(St(2)), L(I(1))))],
    [(R, F("concat", L(St(1)), F("concat", L(St(1)), L())))],
    [(R, F("filter_keyvals", L(), St(2), L(D(("k", St(1))))))],
    [(R, F("concat", L(I(1)), F("concat", L(I(1)), L(I(1)))))],
    [(R, F("concat", F("concat", L(I(1)), L(I(1))), L(I(1))))],
    [("x", L(I(1))), (R, F("concat", V("x"), L(I(1), I(1))))],
    [("x", L(I(1))), (R, F("concat", L(I(1), I(1)), V("x")))],
    [(R, F("limit_events", L(I(1), I(1), I(1)), K(2)))],
    [(R, F("limit_events", F("concat", L(I(1)), L(I(1))), K(1)))],
    [(R, F("filter_keyvals", L(), St(1), L(St(1), St(1))))],
    [(R, F("filter_keyvals", EV(), K("k"), L(K("v0"), St(1))))],
    [(R, F("exclude_keyvals", EV(), K("k"), L(St(2))))],
    [(R, F("sort_by_timestamp", F("limit_events", EV(), K(2))))],
    [(R, L(F("query_bucket_eventcount", K("b1")), F("query_bucket_eventcount", F("find_bucket", K("b2")))))],
    [("e", EV()), (R, F("merge_events_by_keys", V("e"), L(K("k"))))],
    [("e", EV()), (R, F("merge_events_by_keys", V("e"), L(K("k"), K("title"))))],
    [(R, D(("a", F("concat", L(I(1)), L(I(1)))), ("b", L(F("nop"), F("concat", L(), L(St(1)))))))],
]
BUILTINS = [
    [(R, F("find_bucket", K("b")))], [(R, F("find_bucket", K("b"), K("host2")))],
    [(R, F("query_bucket", K("b1")))], [(R, F("query_bucket_eventcount", K("b2")))],
    [(R, F("filter_keyvals", EV(), K("k"), L(K("v1"))))], [(R, F("exclude_keyvals", EV(), K("k"), L(K("v1"))))],
    [(R, F("filter_keyvals_regex", EV(), K("k"), K("v[0]")))],
    [(R, F("filter_period_intersect", EV("b1"), EV("b2")))], [(R, F("period_union", EV("b1"), EV("b2")))],
    [(R, F("limit_events", EV(), K(1)))], [(R, F("merge_events_by_keys", EV(), L(K("k"))))],
    [(R, F("chunk_events_by_key", EV(), K("k")))], [(R, F("sort_by_timestamp", EV()))], [(R, F("sort_by_duration", EV()))],
    [(R, F("sum_durations", EV()))], [(R, F("concat", EV("b1"), EV("b2")))], [(R, F("union_no_overlap", EV("b1"), EV("b2")))],
    [(R, F("flood", EV()))], [(R, F("split_url_events", EV()))], [(R, F("simplify_window_titles", EV(), K("title")))],
    [(R, F("categorize", EV(), RULES))], [(R, F("tag", EV(), TAGS))],
    [(R, F("union_no_overlap", F("flood", EV("b1")), F("sort_by_timestamp", EV("b2"))))],
    [(R, F("filter_period_intersect", F("concat", EV("b1"), L()), F("period_union", EV("b2"), L())))],
    [("a", EV("b1")), ("b", F("flood", V("a"))), (R, L(V("a"), V("b")))],
]


SIGNATURES = {
    "filter_keyvals": ["events", "key", "vals"], "exclude_keyvals": ["events", "key", "vals"], "filter_keyvals_regex": ["events", "key", "regex"],
    "filter_period_intersect": ["events", "events2"], "period_union": ["events", "events2"], "limit_events": ["events", "count"],
    "merge_events_by_keys": ["events", "keys"], "chunk_events_by_key": ["events", "key"], "sort_by_timestamp": ["events"], "sort_by_duration": ["events"],
    "sum_durations": ["events"], "concat": ["events", "events2"], "union_no_overlap": ["events", "events2"], "flood": ["events"],
    "split_url_events": ["events"], "simplify_window_titles": ["events", "titlekey"], "categorize": ["events", "rules"], "tag": ["events", "tags"],
    "query_bucket": ["bucket"], "query_bucket_eventcount": ["bucket"], "find_bucket": ["filter"],
}
PLAIN = {"events": EV("b1"), "events2": EV("b2"), "key": K("k"), "vals": L(K("v0")), "regex": K("v[01]"), "count": K(2), "keys": L(K("k")), "titlekey": K("title"),
         "rules": RULES, "tags": TAGS, "bucket": K("b1"), "filter": K("b")}
NESTED = {
    "events": [F("concat", EV("b1"), L()), F("limit_events", F("sort_by_timestamp", EV("b1")), K(9))],
    "events2": [F("concat", L(), EV("b2")), F("sort_by_duration", EV("b2"))],
    "key": [V("kk")], "titlekey": [V("tk")], "regex": [V("rx")],
    "vals": [L(K("v1"), St(1)), V("vv")],
    "count": [I(1), F("nop")],
    "keys": [L(K("k"), K("title")), V("ks")],
    "rules": [V("rules")], "tags": [V("tags")],
    "bucket": [F("find_bucket", K("b2")), V("bn")],
    "filter": [V("fs")],
}
PRELUDE = [("kk", K("k")), ("tk", K("title")), ("rx", K("v0")), ("vv", L(K("v0"), K("v1"))), ("ks", L(K("k"))), ("rules", RULES), ("tags", TAGS), ("bn", K("b1")), ("fs", K("b1"))]


def generated_shapes():
    """every built-in with, in turn, each argument position replaced by a nested call / a variable /
    a literal with symbolic leaves (the other arguments plain)"""
    out = []
    for fname, sig in sorted(SIGNATURES.items()):
        for pos, kind in enumerate(sig):
            for alt in NESTED.get(kind, []):
                args = [PLAIN[k] for k in sig]
                args[pos] = alt
                used = set()

                def walk(n):
                    if n[0] == "var":
                        used.add(n[1])
                    elif n[0] == "call":
                        [walk(a) for a in n[2]]
                    elif n[0] == "list":
                        [walk(a) for a in n[1]]

                [walk(a) for a in args]
                prog = [(nm, e) for nm, e in PRELUDE if nm in used] + [(R, F(fname, *args))]
                out.append(prog)
    return out


def harnesses(tier):
    c17.install()
    hs = []
    fams = [("literals", LITERALS), ("variables", VARIABLES), ("calls", CALLS), ("builtins", BUILTINS)]
    modes = ["none", "single", "sym1"] if tier == "quick" else ["none", "single", "sym1", "sym2"]
    fams.append(("generated-argument-positions", generated_shapes()))
    for fname, shapes in fams:
        for ws in modes:
            if fname == "generated-argument-positions" and ws not in ("none", "sym1"):
                continue
            if fname == "builtins" and ws in ("sym2",):
                continue
            hs.append((Harness(PROP, "%s-ws-%s" % (fname, ws), h_program, dict(shapes=shapes, ws=ws),
                               "%d program shapes (%s) with symbolic leaves; separator whitespace mode %s" % (len(shapes), fname, ws), split_depth=7), 1800))
    hs.append((Harness(PROP, "literals-after-rejected-queries", h_program, dict(shapes=LITERALS, ws="none", after_rejected=3), "%d literal shapes evaluated after 3 rounds of %d rejected queries (errors 150 levels deep in lists, dicts and calls; a type error after assignments) in the same process" % (len(LITERALS), len(REJECTED_FIRST)), split_depth=7), 1800))
    hs.append((Harness(PROP, "variables-after-rejected-queries", h_program, dict(shapes=VARIABLES, ws="none", after_rejected=3), "%d variable shapes evaluated after 3 rounds of rejected queries in the same process" % len(VARIABLES), split_depth=7), 1800))
    return hs


def meta(chk, tier):
    chk.functions = C.source_files("aw_query/query2.py", "aw_query/functions.py", "aw_transform/__init__.py")
    chk.functions.append(dict(functions=["aw_query.query2.query", "parse", "_parse_token", "QInteger/QVariable/QString/QFunction/QDict/QList .check/.parse/.interpret", "interpret", "get_return",
                                         "aw_query.functions: q2_function / q2_typecheck wrappers and all registered q2_* built-ins"]))
    chk.bounds = [
        "program shapes: %d literal, %d variable, %d call/nesting, %d built-in shapes (<=3 statements, nesting depth <=3, 0-3 arguments), enumerated by hand from the grammar" % (len(LITERALS), len(VARIABLES), len(CALLS), len(BUILTINS)),
        "leaves symbolic: every digit of integer literals (0-9), every character of string literals (any Unicode code point except ';' — the literal's own delimiter included, written escaped; a backslash anywhere but last / before the delimiter / before another backslash), 0-2 characters per literal",
        "separator whitespace: none / one space in every slot around , : = ; / one or two arbitrary Unicode whitespace characters in one slot (every slot tried)",
        "dict keys concrete and distinct; datastore: memory backend, two buckets with 3 and 2 concrete events",
    ]
    chk.stubs = c17_stubs()
    chk.assumptions = [
        "reference evaluator is independent of aw_query.functions: own table of 22 built-ins calling aw_transform / Bucket methods directly on deep copies of the evaluated arguments",
        "strings containing ';' are outside the property's quantifier; a backslash denotes itself unless it precedes the literal's own delimiter (the only escape of the language)",
        "programs that re-read a variable after passing it to an in-place transform are not generated (the property does not speak about purity of built-ins)",
        "generated shapes: every built-in with each argument position in turn replaced by a nested call, a variable or a literal with symbolic leaves",
        "program shapes beyond the listed ones are outside the claim",
    ]


def c17_stubs():
    return ["aw_query.query2.int -> sym_int", "aw_query.functions.isinstance -> symbolic ints count as int", "symbolic string hash forks on registered identifiers"]


def main(tier, seed, args):
    return C.run_check(sys.modules[__name__], tier, seed, args)
