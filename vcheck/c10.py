"""C10 — flood closes exactly the short gaps and never loses or overlaps time."""
import sys

from symex import shadows as S
from symex.shadows import And, Or, Not, Implies
from . import common as C
from .common import Harness, mk_event, ev_start, ev_dur, ev_end, zv

import aw_core.models as M
import aw_transform.flood  # noqa

FL = sys.modules["aw_transform.flood"]

PROP = "C10"
T_MAX_MS = 4_200_000_000_000
D_MAX_MS = 10**10
P_MAX_US = 10**12


def install():
    C.stub(M, "int", S.sym_int)
    C.stub(FL, "timedelta", S.sym_timedelta)
    C.shadow_module(FL)


def h_flood(x, n, ordered, ntags=3, twin=False, us=False):
    T, D, L, evs = [], [], [], []
    for i in range(n):
        k = x.zint("k%d" % i, 0, T_MAX_MS)
        m = x.ranged("m%d" % i, 0, D_MAX_MS)
        l = x.zint("l%d" % i, 0, ntags - 1)
        T.append(k * 1000)
        # us: durations of any whole number of microseconds (events then end between two milliseconds)
        D.append(m * 1000 + (x.zint("u%d" % i, 0, 999) if us else 0))
        L.append(l)
    for i in range(n):
        for j in range(i + 1, n):
            x.assume(T[i] != T[j])
            x.assume(Or(T[i] + D[i] <= T[j], T[j] + D[j] <= T[i]))
        if ordered and i + 1 < n:
            x.assume(T[i] < T[i + 1])
    p = x.zint("p", 0, P_MAX_US)
    evs = [mk_event(x, T[i], D[i], {"k": x.wrap(L[i])}, id=i, dur_aligned=not us) for i in range(n)]
    out = FL.flood(evs, x.seconds_us(p))
    if twin:
        return [("reached-len%d" % len(out), False)], [len(out)]
    So = [ev_start(o) for o in out]
    Eo = [ev_end(o) for o in out]
    Lo = [zv(o.data["k"]) for o in out]
    t = x.zint("tq")
    lab = x.zint("labq")
    inn = Or([And(T[i] <= t, t < T[i] + D[i]) for i in range(n)])
    outc = Or([And(So[j] <= t, t < Eo[j]) for j in range(len(out))])
    in_l = Or([And(L[i] == lab, T[i] <= t, t < T[i] + D[i]) for i in range(n)])
    out_l = Or([And(Lo[j] == lab, So[j] <= t, t < Eo[j]) for j in range(len(out))])
    # t lies in the gap between two events i -> j that are neighbours in time (nothing in between)
    def neighbours(i, j):
        return And([Or(T[k] + D[k] <= T[i] + D[i], T[k] >= T[j]) for k in range(n) if k not in (i, j)] + [T[i] + D[i] <= T[j], T[i] < T[j]])

    shortgap = Or([And(neighbours(i, j), T[i] + D[i] <= t, t < T[j], T[j] - (T[i] + D[i]) <= p) for i in range(n) for j in range(n) if i != j])
    longgap = Or([And(neighbours(i, j), T[i] + D[i] <= t, t < T[j], T[j] - (T[i] + D[i]) > p) for i in range(n) for j in range(n) if i != j])
    obl = [
        ("input-time-still-covered", Implies(inn, outc)),
        ("each-label-keeps-its-time", Implies(in_l, out_l)),
        ("new-time-only-in-short-gaps", Implies(And(outc, Not(inn)), shortgap)),
        ("short-gaps-closed", Implies(shortgap, outc)),
        ("long-gaps-intact", Implies(longgap, Not(outc))),
        ("positive-length", And([Eo[j] > So[j] for j in range(len(out))])),
        ("non-overlapping", And([Or(Eo[a] <= So[b], Eo[b] <= So[a]) for a in range(len(out)) for b in range(a + 1, len(out))])),
        ("sorted", And([So[a] <= So[a + 1] for a in range(len(out) - 1)])),
        ("input-not-modified", And([And(ev_start(evs[i]) == T[i], ev_dur(evs[i]) == D[i], zv(evs[i].data["k"]) == L[i], evs[i].id == i) for i in range(n)])),
        ("output-not-aliasing-input", all(all(o is not e for e in evs) for o in out)),
    ]
    if us:
        # with sub-millisecond ends the exact obligations above are known not to hold (known_findings.json: the
        # algorithm moves timestamps, which have millisecond resolution, to instants that may lie between two
        # milliseconds); whatever goes beyond that — a full millisecond or more — is still a violation
        W = 1000
        mid_short = Or([And(neighbours(i, j), T[i] + D[i] + W <= t, t < T[j] - W, T[j] - (T[i] + D[i]) <= p - W) for i in range(n) for j in range(n) if i != j])
        deep_long = Or([And(neighbours(i, j), T[i] + D[i] + W <= t, t < T[j] - W, T[j] - (T[i] + D[i]) > p + W) for i in range(n) for j in range(n) if i != j])
        obl += [
            ("outputs-overlap-by-less-than-1ms", And([Or(Eo[a] - So[b] < W, Eo[b] - So[a] < W) for a in range(len(out)) for b in range(a + 1, len(out))])),
            ("short-gaps-closed-except-within-1ms-of-their-edges", Implies(mid_short, outc)),
            ("long-gaps-intact-except-within-1ms-of-their-edges", Implies(deep_long, Not(outc))),
        ]
    obs = [len(out)] + [[So[j], Eo[j], Lo[j]] for j in range(len(out))]
    return obl, obs


def harnesses(tier):
    install()
    hs = []
    if tier == "quick":
        spec = [(1, False, 60), (2, False, 60), (3, False, 300), (4, True, 300)]
    else:
        spec = [(1, False, 60), (2, False, 60), (3, False, 300), (4, False, 1800), (4, True, 600), (5, True, 1800), (6, True, 3600)]
    hs.append((Harness(PROP, "flood-n2-float-semantics", C.with_floats(h_flood), dict(n=2, ordered=False), "flood on 2 events with IEEE double semantics for any float arithmetic, durations whole ms < 2^17 in binary range pieces", split_depth=7, fresh_solver=True), 600))
    for n in ([2, 3] if tier == "quick" else [2, 3, 4]):
        hs.append((Harness(PROP, "flood-n%d-microsecond-durations" % n, h_flood, dict(n=n, ordered=(n > 3), us=True), "flood on %d events whose durations are any whole number of microseconds (instants stay on milliseconds, as Event keeps them)" % n, split_depth=7), 1800))
    for n, ordered, budget in spec:
        hs.append((Harness(PROP, "flood-n%d-%s" % (n, "sorted" if ordered else "anyorder"), h_flood, dict(n=n, ordered=ordered),
                           "flood on %d non-overlapping events given %s" % (n, "in chronological order" if ordered else "in any order"), split_depth=7, cross_solver=2), budget))
    return hs


def meta(chk, tier):
    chk.functions = C.source_files("aw_transform/flood.py", "aw_core/models.py")
    chk.functions.append(dict(functions=["aw_transform.flood.flood", "aw_core.models.Event (constructor, setters, __lt__)", "aw_core.models._timestamp_parse"]))
    chk.bounds = [
        "events: 1..3 in any input order + 4 pre-sorted (quick); 1..4 any order + 4..6 pre-sorted (thorough)",
        "timestamps: any multiple of 1 ms in [1970, ~2103], pairwise distinct; durations: any multiple of 1 ms in [0, 1e10 ms]; pairwise non-overlapping (touching allowed)",
        "pulsetime: any integer microseconds in [0, 1e12]",
        "data: one key, 3 possible symbolic tag values",
        "the query point t and label are unconstrained integers (microseconds)",
    ]
    chk.stubs = ["aw_core.models.int -> sym_int", "aw_transform.flood.timedelta -> sym_timedelta (exact)", "logging disabled (f-string arguments are still evaluated)"]
    chk.assumptions = [
        "the main harnesses use whole-millisecond durations; durations of any whole number of microseconds are covered by the *-microsecond-durations harnesses, where the exact obligations non-overlapping / short-gaps-closed are known findings (overlaps and unclosed gaps of less than 1 ms) and the 1 ms-tolerant forms must hold",
        "overlapping inputs are outside the property's quantifier",
        "pre-sorted variants rely on the any-order variants for the sort itself",
    ]


def post(chk, tier):
    h = Harness(PROP, "reach-twin-n3", h_flood, dict(n=3, ordered=True, twin=True), "reachability twin")
    r = C.run_harness(h, budget_s=120, seed=chk.seed)
    names = sorted({c["obligation"] for c in r.cex})
    ok = set(names) >= {"reached-len1", "reached-len2", "reached-len3"}
    chk.vacuity.append(dict(twin="flood-n3 with obligation False", reached=names, ok=ok))
    if not ok:
        chk.harness_errors.append("vacuity: reachability twin reached only %s" % names)


def main(tier, seed, args):
    return C.run_check(sys.modules[__name__], tier, seed, args)
