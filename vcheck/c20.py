"""C20 — effective configuration is the defaults overlaid by the user's file."""
import ast
import io
import os
import sys
import types

import z3  # noqa

from symex import shadows as S
from symex import sstr
from symex.engine import Unsupported
from symex.shadows import And, Or, Not
from . import common as C
from .common import Harness
from .c11 import sym_equal, show

PROP = "C20"
KEYS = ["a", "b", "c"]
CFG_SRC = os.path.join(C.REPO, "aw_core", "config.py")


# ------------------------------------------------------------------ loading
class _JoinRewriter(ast.NodeTransformer):
    """'<literal>'.join(x)  ->  __sym_join__('<literal>', x): str.join is C code that would read the
    raw payload of symbolic strings"""

    def visit_Call(self, node):
        self.generic_visit(node)
        f = node.func
        if isinstance(f, ast.Attribute) and f.attr == "join" and isinstance(f.value, ast.Constant) and isinstance(f.value.value, str):
            return ast.copy_location(ast.Call(func=ast.Name(id="__sym_join__", ctx=ast.Load()), args=[f.value] + node.args, keywords=[]), node)
        return node


def load_config_module():
    """aw_core.config compiled from /repo's current source with literal-separator joins made symbolic-aware"""
    src = open(CFG_SRC).read()
    tree = _JoinRewriter().visit(ast.parse(src, CFG_SRC))
    ast.fix_missing_locations(tree)
    mod = types.ModuleType("aw_core_config_under_test")
    mod.__file__ = CFG_SRC
    mod.__dict__["__sym_join__"] = sstr.join_plain
    exec(compile(tree, CFG_SRC, "exec"), mod.__dict__)
    return mod


CFG = load_config_module()


class StubTable(dict):
    """stands for tomlkit's Table (a dict subclass)"""


class StubInline(dict):
    """stands for tomlkit's InlineTable (another dict subclass)"""


TABLE_KINDS = [dict, StubTable, StubInline]


class FS:
    def __init__(self, files):
        self.files = dict(files)
        self.writes = []
        self.reads = []

    def isfile(self, p):
        return os.fspath(p) in self.files

    def open(self, p, mode="r", *a, **k):
        fs = self
        p = os.fspath(p)
        if "w" in mode or "a" in mode or "+" in mode:
            class W:
                def __enter__(s):
                    return s

                def __exit__(s, *e):
                    return False

                def write(s, data):
                    fs.writes.append((p, data))
                    fs.files[p] = data

            return W()
        if p not in self.files:
            raise FileNotFoundError(p)
        self.reads.append(p)
        data = self.files[p]

        class R:
            def __enter__(s):
                return s

            def __exit__(s, *e):
                return False

            def read(s):
                return data

        return R()


def install(fs, docs):
    """docs: text token -> prepared nested dict"""
    ospath = types.SimpleNamespace(join=os.path.join, isfile=fs.isfile, exists=fs.isfile)
    CFG.__dict__["os"] = types.SimpleNamespace(path=ospath, fsync=lambda fd: None)
    CFG.__dict__["open"] = fs.open
    CFG.__dict__["dirs"] = types.SimpleNamespace(get_config_dir=lambda app: "/cfg/" + app)

    def parse(text):
        if isinstance(text, sstr.SStr) or text not in docs:
            raise Unsupported("tomlkit.parse on an unprepared text")
        return docs[text]()

    CFG.__dict__["tomlkit"] = types.SimpleNamespace(parse=parse, container=types.SimpleNamespace(Container=dict))


# ------------------------------------------------------------- document gen
APP1 = "org.example.watcher-1"  # application names may contain dots; the user file is <config dir>/<appname>/<appname>.toml


def gen_doc(x, pfx, levels, tkind):
    """a nested dict whose shape is chosen by forking.  levels: keys per nesting level."""
    nkeys = levels[0]
    d = tkind()
    for kk in KEYS[:nkeys]:
        opts = ["absent", "int", "str", "array"] + (["table"] if len(levels) > 1 else [])
        kind = opts[x.choice("%s_%s" % (pfx, kk), len(opts))]
        if kind == "int":
            d[kk] = x.wrap(x.zint("%s_%s_v" % (pfx, kk), 0, 3))
        elif kind == "str":
            d[kk] = "s-" + pfx[0]
        elif kind == "array":
            d[kk] = [x.wrap(x.zint("%s_%s_e" % (pfx, kk), 0, 3)), "z"]
        elif kind == "table":
            d[kk] = gen_doc(x, "%s_%s" % (pfx, kk), levels[1:], tkind)
    return d


def clone(d):
    if isinstance(d, dict):
        return type(d)((k, clone(v)) for k, v in d.items())
    if isinstance(d, list):
        return [clone(v) for v in d]
    return d


def overlay(default, user):
    """reference: user's value where set, default elsewhere, at every depth"""
    out = {}
    for k in default:
        out[k] = clone(default[k])
    for k, v in user.items():
        if k in default and isinstance(default[k], dict) and isinstance(v, dict):
            out[k] = overlay(default[k], v)
        else:
            out[k] = clone(v)
    return out


def plain(d):
    if isinstance(d, dict):
        return {k: plain(v) for k, v in d.items()}
    if isinstance(d, list):
        return [plain(v) for v in d]
    return d


def h_overlay(x, levels, second, tkind=1):
    """load with an existing user file; then a second load in the same process (other app) with
    `second` in {'nofile', 'otherfile'} — results must not depend on earlier loads"""
    tk = TABLE_KINDS[tkind]
    D0 = gen_doc(x, "d", levels, tk)
    U1 = gen_doc(x, "u", levels, tk)
    U2 = gen_doc(x, "w", [1] + [1] * (len(levels) - 1), tk) if second == "otherfile" else None
    docs = {"DEFAULT": lambda: clone(D0), "USER1": lambda: clone(U1), "USER2": (lambda: clone(U2)), "": (lambda: tk())}
    files = {"/cfg/%s/%s.toml" % (APP1, APP1): "USER1"}
    if second == "emptyfile":
        files["/cfg/app2/app2.toml"] = ""  # an existing user file of length 0
    if second == "otherfile":
        files["/cfg/app2/app2.toml"] = "USER2"
    fs = FS(files)
    install(fs, docs)
    r1 = CFG.load_config_toml(APP1, "DEFAULT")
    obl = [("effective-config-is-overlay", sym_equal(plain(r1), plain(overlay(D0, U1))))]
    obl.append(("existing-user-file-not-written", not fs.writes))
    r2 = CFG.load_config_toml("app2", "DEFAULT")
    if second == "emptyfile":
        obl.append(("empty-user-file-gives-defaults", sym_equal(plain(r2), plain(D0))))
        obl.append(("existing-empty-user-file-not-written", not fs.writes and fs.files["/cfg/app2/app2.toml"] == ""))
    elif second == "otherfile":
        obl.append(("second-load-is-overlay-of-its-own-file", sym_equal(plain(r2), plain(overlay(D0, U2)))))
        obl.append(("existing-user-files-not-written", not fs.writes))
    else:
        obl.append(("no-file-gives-defaults", sym_equal(plain(r2), plain(D0))))
        obl.append(("first-run-writes-exactly-one-file", len(fs.writes) == 1 and fs.writes[0][0] == "/cfg/app2/app2.toml"))
    return obl, [show(plain(r1)), show(plain(r2))]


def h_comment_out(x, nlines, nchars):
    """_comment_out_toml on nlines lines of nchars arbitrary characters each: every output line is
    blank, a comment, or a table header — no uncommented key survives"""
    lines = []
    for i in range(nlines):
        ln = x.choice("len%d" % i, nchars + 1)
        chars = []
        for j in range(ln):
            c = sstr.fresh_char(x, "c%d_%d" % (i, j))
            if x.sym:
                x.assume(c != 10)  # '\n' is the line separator itself
            elif c == "\n":
                from symex.engine import Abort

                raise Abort()
            chars.append(c)
        lines.append(chars)
    text_chars = []
    for i, l in enumerate(lines):
        if i:
            text_chars.append("\n")
        text_chars += l
    text = sstr.mk(text_chars)
    out = CFG._comment_out_toml(text)
    if isinstance(out, str) and not isinstance(out, sstr.SStr) and "<symbolic>" in out:
        raise Unsupported("symbolic text went through a C-level str method")
    outs = out.split("\n")
    obl = [("same-number-of-lines", len(outs) == nlines)]
    for i, o in enumerate(outs[:nlines]):
        st = o.strip()
        blank = len(st) == 0
        ok = True if blank else Or(S.B(o.startswith("#")) if not isinstance(o.startswith("#"), bool) else o.startswith("#"),
                                   S.B(st.startswith("[")) if not isinstance(st.startswith("["), bool) else st.startswith("["))
        obl.append(("line-is-blank-comment-or-header-%d" % i, ok))
        # the original line is kept after the '#', or untouched
        src = sstr.mk(lines[i])
        kept = sym_equal(o, src)
        commented = sym_equal(o, "#" + src) if len(o) == len(src) + 1 else False
        obl.append(("line-content-preserved-%d" % i, Or(kept, commented)))
    return obl, [len(outs)]


REAL_DOCS = [
    ("[server]\nhost = 'a'\nport = 5600\n\n[server.cors]\norigins = ['x']\n[server.cors.deep]\nk = 1\nj = 2\n", "[server]\nport = 1\n[server.cors.deep]\nk = 9\nextra = true\n"),
    ("limits = { cpu = 1, mem = 2 }\nname = 'n'\n", "limits = { cpu = 5 }\n"),
    ("[a.b]\nx = 1\n[c]\ny = 2\n[a.d]\nz = 3\n", "[a.d]\nz = 4\n[a.b]\n"),
    ("k = 1\narr = [1, 2]\n[t]\nv = 1.5\n", "k = 'one'\narr = []\nonlyuser = 3\n# comment\n"),
]


def h_real(x):
    """stub validation (concrete, real tomlkit, real files in a temp dir): the overlay law and the
    first-run file on a few real TOML documents incl. inline and out-of-order tables"""
    import tempfile
    import shutil
    import tomlkit
    import importlib
    import aw_core.config as RC

    i = x.choice("doc", len(REAL_DOCS))
    dflt, user = REAL_DOCS[i]
    tmp = tempfile.mkdtemp(prefix="c20_")
    old = os.environ.get("XDG_CONFIG_HOME")
    os.environ["XDG_CONFIG_HOME"] = tmp
    try:
        importlib.reload(RC)
        cdir = RC.dirs.get_config_dir(APP1)
        path = os.path.join(cdir, APP1 + ".toml")
        open(path, "w").write(user)
        r = RC.load_config_toml(APP1, dflt)
        want = overlay(plain_toml(tomlkit.parse(dflt)), plain_toml(tomlkit.parse(user)))
        obl = [("real-overlay", plain_toml(r) == want), ("real-user-file-untouched", open(path).read() == user)]
        r2 = RC.load_config_toml("app2", dflt)
        p2 = os.path.join(RC.dirs.get_config_dir("app2"), "app2.toml")
        obl.append(("real-no-file-gives-defaults", plain_toml(r2) == plain_toml(tomlkit.parse(dflt))))
        obl.append(("real-first-run-file-written", os.path.isfile(p2)))
        r3 = RC.load_config_toml("app2", dflt)
        obl.append(("real-later-load-equals-defaults", plain_toml(r3) == plain_toml(tomlkit.parse(dflt))))
        return obl, [i]
    finally:
        if old is None:
            os.environ.pop("XDG_CONFIG_HOME", None)
        else:
            os.environ["XDG_CONFIG_HOME"] = old
        shutil.rmtree(tmp, ignore_errors=True)


def plain_toml(d):
    if isinstance(d, dict):
        return {str(k): plain_toml(v) for k, v in d.items()}
    if isinstance(d, list):
        return [plain_toml(v) for v in d]
    if isinstance(d, bool):
        return bool(d)
    if isinstance(d, int):
        return int(d)
    if isinstance(d, float):
        return float(d)
    if isinstance(d, str):
        return str(d)
    return d


def harnesses(tier):
    hs = []
    spec = [([2, 1], "nofile", 0), ([2, 1], "nofile", 1), ([2, 1], "otherfile", 2), ([2, 1], "emptyfile", 1)]
    if tier == "thorough":
        spec += [([2, 1], "otherfile", 1), ([2, 1, 1], "nofile", 1), ([2, 1, 1], "otherfile", 2), ([2, 2], "nofile", 1), ([3, 1], "nofile", 0)]
    for levels, second, tk in spec:
        hs.append((Harness(PROP, "overlay-levels%s-%s-%s" % ("".join(map(str, levels)), second, TABLE_KINDS[tk].__name__), h_overlay, dict(levels=levels, second=second, tkind=tk),
                           "load_config_toml: default x user document shapes (keys per level %s) explored by forking, scalar leaves symbolic; then a second load (%s)" % (levels, second), split_depth=9), 3600))
    cm = [(1, 3), (2, 2)] if tier == "quick" else [(1, 3), (2, 2), (1, 4), (3, 2), (2, 3)]
    for nl, nc in cm:
        hs.append((Harness(PROP, "comment_out-%dx%d" % (nl, nc), h_comment_out, dict(nlines=nl, nchars=nc), "_comment_out_toml on %d lines of up to %d arbitrary Unicode characters" % (nl, nc), split_depth=7), 1800))
    hs.append((Harness(PROP, "real-tomlkit-samples", h_real, {}, "stub validation with real tomlkit and real files (concrete)"), 300))
    return hs


def meta(chk, tier):
    chk.functions = C.source_files("aw_core/config.py", "aw_core/dirs.py")
    chk.functions.append(dict(functions=["aw_core.config._merge", "_comment_out_toml", "load_config_toml"],
                              note="aw_core/config.py is compiled from the current source on every run with one AST rewrite: '<literal>'.join(x) -> symbolic-aware join"))
    chk.bounds = [
        "documents: nested dicts over a 3-key pool, keys per level [2,1] (quick), + [2,1,1] (depth 3), [2,2] and [3,1] (thorough); per key absent / symbolic int / string / array / table, on both sides; three table classes (dict and two dict subclasses)",
        "_comment_out_toml: 1 line x <=3 chars, 2 lines x <=2 chars (quick); up to 3 lines / 4 chars (thorough); every character any Unicode code point except newline",
        "two consecutive loads per process (second without a file, or with another file)",
    ]
    chk.stubs = ["tomlkit.parse -> prepared nested dicts (TOML text <-> dict is third-party code, trusted; validated on 4 real documents with real tomlkit and real files)",
                 "os.path.isfile / open / dirs.get_config_dir -> in-memory file table recording writes"]
    chk.assumptions = ["TOML parsing itself is outside the claim", "a commented-out file parses to empty tables only (follows from every line being blank, a comment or a header)",
                       "defaults whose values are each written on one line (property's own restriction)"]


def main(tier, seed, args):
    return C.run_check(sys.modules[__name__], tier, seed, args)
