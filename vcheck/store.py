"""Storage harness infrastructure shared by C01-C07, C12, C14, C18: backends under shadows,
arbitrary valid pre-states loaded directly, table-level dumps, the reference list model."""
import os
import sys
import tempfile
import shutil
from datetime import datetime, timedelta, timezone

import z3

from symex import shadows as S
from symex import sqlstub
from symex import engine as E
from symex.engine import Unsupported
from symex.shadows import And, Or, Not, If, Sum
from . import common as C
from .common import truth

import aw_core.models as M
from aw_core.models import Event
from aw_datastore import Datastore
import aw_datastore.storages.memory as MEM
import aw_datastore.storages.sqlite as SQ
import aw_datastore.datastore as DS

T_MAX_MS = 4_200_000_000_000
D_MAX_US = 86400 * 10**6  # 24 h
T0 = datetime(2020, 1, 1, tzinfo=timezone.utc)
EPOCH = datetime(1970, 1, 1, tzinfo=timezone.utc)

JSON = sqlstub.JsonStub()


class Clock:
    """stands for datetime.now(): arbitrary non-decreasing instants (fresh symbolic per call)"""

    def __init__(self, x=None, fixed=None):
        self.x = x
        self.fixed = fixed
        self.n = 0
        self.calls = []

    def __call__(self, tz=None):
        if self.fixed is not None:
            v = self.fixed[min(self.n, len(self.fixed) - 1)]
            self.n += 1
            self.calls.append(v)
            return v
        return datetime.now(tz)


def install_common():
    C.stub(M, "int", S.sym_int)
    C.stub(M, "timedelta", S.sym_timedelta)
    C.stub(DS, "int", S.sym_int)
    C.stub(DS, "timedelta", S.sym_timedelta)
    C.stub(MEM, "int", S.sym_int)


def install_sqlite(clock=None):
    C.stub(SQ, "sqlite3", sqlstub)
    C.stub(SQ, "json", JSON)
    C.stub(SQ, "int", S.sym_int)
    C.stub(SQ, "timedelta", S.sym_timedelta)
    if "EPOCH" in SQ.__dict__:
        # a shadow epoch, so that EPOCH + <symbolic timedelta> and <symbolic datetime> - EPOCH stay symbolic
        C.stub(SQ, "EPOCH", S.SDatetime(0, 0, True))
    C.stub(SQ, "datetime", S.SymDatetimeClass(clock))


class Row:
    """abstract event row: id, start (us), dur (us), tag (data == {'tag': tag})"""

    def __init__(self, id, start, dur, tag):
        self.id, self.start, self.dur, self.tag = id, start, dur, tag

    @property
    def end(self):
        return self.start + self.dur

    def same(self, o):
        return And(self.id == o.id, self.start == o.start, self.dur == o.dur, self.tag == o.tag)

    def same_content(self, o):
        return And(self.start == o.start, self.dur == o.dur, self.tag == o.tag)

    def show(self):
        return [self.id, self.start, self.dur, self.tag]


def row_of_event(e):
    tag = e.data.get("tag") if isinstance(e.data, dict) else None
    return Row(C.zv(e.id) if e.id is not None else None, S.dt_us(e.timestamp), S.td_us(e.duration), C.zv(tag))


def sym_rows(x, pfx, n, ids=True, dmax=D_MAX_US, us_granularity=False):
    """n abstract rows with symbolic ms-aligned starts (or us), us durations in [0, dmax], tags in 0..2"""
    rows = []
    for i in range(n):
        k = x.zint("%sk%d" % (pfx, i), 0, T_MAX_MS)
        d = x.zint("%sd%d" % (pfx, i), 0, dmax)
        t = x.zint("%st%d" % (pfx, i), 0, 2)
        rid = x.zint("%sid%d" % (pfx, i), 1, 10**6) if ids else None
        rows.append(Row(rid, k * 1000, d, t))
    return rows


def distinct(x, ids):
    for i in range(len(ids)):
        for j in range(i + 1, len(ids)):
            x.assume(ids[i] != ids[j])


def event_of_row(x, r, with_id=False):
    return C.mk_event(x, r.start, r.dur, {"tag": x.wrap(r.tag)}, id=(x.wrap(r.id) if with_id and r.id is not None else None), aligned=False)


# ------------------------------------------------------------------ backends
DECOY_T = datetime(2019, 5, 6, 7, 8, 9, tzinfo=timezone.utc)
DECOY_D = timedelta(seconds=7)


class Backend:
    """besides the store under test every backend keeps a *bystander*: a second store object of the same kind
    (own file) alive in the same process, created first, holding buckets with the same ids and one event each.
    Whatever the harness does to the store under test, the bystander must come out unchanged — state shared
    between store objects (class attributes, module globals, default arguments) shows up here."""

    name = "?"
    bystander = None

    def __init__(self):
        self.tmp = None

    def new_store(self, x, which):
        return None

    def first_life(self, ds, bids):
        """every bucket id the harness uses is in its *second life* on this store object: it was created,
        given an event, and deleted before the harness's own create_bucket — whatever the store remembers per
        bucket id (row ids, keys, cached handles) must not survive the deletion"""
        from aw_core.models import Event

        for bid in bids:
            ds.create_bucket(bid, "first-life", "first-life", "first-life", created=T0, name="first-life", data={"first": "life"})
            ds[bid].insert(Event(timestamp=DECOY_T, duration=DECOY_D, data={"first": "life"}))
            ds.delete_bucket(bid)

    def make_bystander(self, x, bids):
        from aw_core.models import Event

        d2 = self.new_store(x, "bystander")
        if d2 is None:
            return
        for bid in bids:
            d2.create_bucket(bid, "bystander-type", "bystander-client", "bystander-host", created=T0, name="bystander", data={"bystander": True})
            d2[bid].insert(Event(timestamp=DECOY_T, duration=DECOY_D, data={"bystander": bid}))
            d2[bid].get_eventcount()
        self.bystander = (d2, list(bids))

    def check_bystander(self):
        if self.bystander is None:
            return
        d2, bids = self.bystander
        self.bystander = None
        try:
            ok = sorted(d2.buckets()) == sorted(bids)
            for bid in bids:
                evs = d2[bid].get(-1)
                ok = ok and len(evs) == 1 and evs[0].timestamp == DECOY_T and evs[0].duration == DECOY_D and evs[0].data == {"bystander": bid}
                m = d2[bid].metadata()
                ok = ok and m["type"] == "bystander-type" and m["hostname"] == "bystander-host" and m.get("data") == {"bystander": True}
        except Exception as e:  # noqa — a bystander that cannot even be read any more is not unchanged
            ok = False
        C.EXTRA.append(("bystander-store-object-unchanged", bool(ok)))

    def close(self):
        self.check_bystander()
        if self.tmp:
            shutil.rmtree(self.tmp, ignore_errors=True)
            self.tmp = None


class MemoryBackend(Backend):
    name = "memory"

    def new_store(self, x, which):
        from aw_datastore.storages import MemoryStorage

        return Datastore(MemoryStorage, testing=True)

    def make(self, x, state, seq=None, meta=None):
        """state: dict bucket_id -> list of Row (ids distinct within the bucket)"""
        from aw_datastore.storages import MemoryStorage

        self.make_bystander(x, list(state))
        ds = Datastore(MemoryStorage, testing=True)
        self.first_life(ds, list(state))
        for bid in state:
            ds.create_bucket(bid, "type-" + bid, "client", "host-" + bid, created=T0, name="name-" + bid, data={"d": bid})
        st = ds.storage_strategy
        for bid, rows in state.items():
            st.db[bid] = [event_of_row(x, r, with_id=True) for r in rows]
        self.ds = ds
        return ds

    def table_rows(self, ds):
        """table-level dump: dict bucket_id -> list of Row (storage order)"""
        st = ds.storage_strategy
        return {bid: [row_of_event(e) for e in evs] for bid, evs in st.db.items()}

    def table_meta(self, ds):
        st = ds.storage_strategy
        return {bid: dict(m) for bid, m in st._metadata.items()}


class SqliteBackend(Backend):
    name = "sqlite"

    def new_store(self, x, which):
        from aw_datastore.storages import SqliteStorage

        path = "/stub/%s-%d.db" % (which, id(x)) if x.sym else os.path.join(self.tmp, which + ".db")
        return Datastore(SqliteStorage, testing=True, filepath=path, enable_lazy_commit=True)

    def make(self, x, state, seq=None, meta=None, lazy=True):
        from aw_datastore.storages import SqliteStorage

        if x.sym:
            sqlstub.reset()
            self.make_bystander(x, list(state))
            ds = Datastore(SqliteStorage, testing=True, filepath="/stub/sqlite-%d.db" % id(x), enable_lazy_commit=lazy)
        else:
            self.tmp = tempfile.mkdtemp(prefix="vstore_")
            self.make_bystander(x, list(state))
            ds = Datastore(SqliteStorage, testing=True, filepath=os.path.join(self.tmp, "s.db"), enable_lazy_commit=lazy)
        st = ds.storage_strategy
        self.first_life(ds, list(state))
        for bid in state:
            ds.create_bucket(bid, "type-" + bid, "client", "host-" + bid, created=T0, name="name-" + bid, data={"d": bid})
        conn = st.conn
        if x.sym:
            bt = conn.tables["buckets"]
            et = conn.tables["events"]
            brow = {r["id"]: r["__rowid__"] for r in bt.rows}
            mx = 0
            for bid, rows in state.items():
                for r in rows:
                    et.rows.append({"id": x.wrap(r.id), "__rowid__": x.wrap(r.id), "bucketrow": brow[bid], "starttime": x.wrap(r.start), "endtime": x.wrap(r.start + r.dur),
                                    "datastr": sqlstub.JsonText({"tag": x.wrap(r.tag)})})
                    mx = sqlstub.zmax(mx, r.id)
            # AUTOINCREMENT high-water mark: at least every live id (an arbitrary larger value models deleted rows)
            if seq is not None:
                E.ENG.assume(seq >= mx)
                et.seq = seq
            else:
                et.seq = mx
            conn.commit()
            st.num_uncommitted_statements = 0
        else:
            import json

            mx = 0
            for bid, rows in state.items():
                for r in rows:
                    conn.execute("INSERT INTO events(id, bucketrow, starttime, endtime, datastr) VALUES (?, (SELECT rowid FROM buckets WHERE id = ?), ?, ?, ?)",
                                 [r.id, bid, r.start, r.start + r.dur, json.dumps({"tag": r.tag})])
                    mx = max(mx, r.id)
            hw = seq if seq is not None else mx
            if True:
                if conn.execute("SELECT count(*) FROM sqlite_sequence WHERE name='events'").fetchone()[0]:
                    conn.execute("UPDATE sqlite_sequence SET seq = ? WHERE name = 'events'", [hw])
                else:
                    conn.execute("INSERT INTO sqlite_sequence(name, seq) VALUES ('events', ?)", [hw])
            conn.commit()
            st.num_uncommitted_statements = 0
        self.ds = ds
        return ds

    def _rows(self, ds, committed=False):
        conn = ds.storage_strategy.conn
        if isinstance(conn, sqlstub.Connection):
            tabs = conn.crash_image() if committed else conn.tables
            bt, et = tabs["buckets"], tabs["events"]
            names = {r["__rowid__"]: r["id"] for r in bt.rows}
            out = {n: [] for n in names.values()}
            orphans = []
            for r in et.rows:
                tag = r["datastr"].obj.get("tag") if isinstance(r["datastr"], sqlstub.JsonText) else __import__("json").loads(r["datastr"]).get("tag")
                n0, d0 = sqlstub.num_parts(r["starttime"])
                n1, d1 = sqlstub.num_parts(r["endtime"])
                if d0 != 1 or d1 != 1:
                    raise Unsupported("non-integral microsecond cell")
                row = Row(C.zv(r["id"]), n0, n1 - n0, C.zv(tag))
                b = r["bucketrow"]
                if isinstance(b, int) and b in names:
                    out[names[b]].append(row)
                else:
                    orphans.append(row)
            return out, orphans, {r["id"]: dict(r) for r in bt.rows}
        import json
        import sqlite3

        if committed:
            path = conn.execute("PRAGMA database_list").fetchone()[2]
            c2 = sqlite3.connect(path)
        else:
            c2 = conn
        names = {r[0]: r[1] for r in c2.execute("SELECT rowid, id FROM buckets")}
        out = {n: [] for n in names.values()}
        orphans = []
        for rid, b, s0, s1, dstr in c2.execute("SELECT id, bucketrow, starttime, endtime, datastr FROM events ORDER BY id"):
            row = Row(rid, int(s0), int(s1) - int(s0), json.loads(dstr).get("tag"))
            if b in names:
                out[names[b]].append(row)
            else:
                orphans.append(row)
        meta = {r[0]: dict(id=r[0], name=r[1], type=r[2], client=r[3], hostname=r[4], created=r[5], datastr=r[6]) for r in c2.execute("SELECT id, name, type, client, hostname, created, datastr FROM buckets")}
        if committed:
            c2.close()
        return out, orphans, meta

    def table_rows(self, ds, committed=False):
        out, orphans, _ = self._rows(ds, committed)
        if orphans:
            out["<orphans>"] = orphans
        return out

    def table_meta(self, ds, committed=False):
        return self._rows(ds, committed)[2]


def _is_shadow_num(v):
    return isinstance(v, (S.SRatio, S.SInt)) or type(v).__name__ == "SFloat"


def class_stub(real, convert=None, also=()):
    """a class that behaves as `real` in isinstance / issubclass checks and, when called, passes
    shadows through (optionally converting them) and otherwise constructs a `real`"""

    class _Meta(type):
        def __instancecheck__(cls, x):
            return isinstance(x, real)

        def __subclasscheck__(cls, c):
            return issubclass(c, real)

    class Stub(metaclass=_Meta):
        def __new__(cls, v=0, *a, **k):
            if _is_shadow_num(v) or isinstance(v, also):
                return convert(v) if convert else v
            return real(v, *a, **k)

    Stub.__name__ = real.__name__
    return Stub


class DecimalStub:
    """stands for the module decimal inside peewee: Decimal(x) passes shadows through"""

    def __init__(self):
        import decimal as _d

        self._d = _d
        self.Decimal = class_stub(_d.Decimal)

    def __getattr__(self, name):
        return getattr(self._d, name)


class _TextMeta(type):
    def __instancecheck__(cls, x):
        return isinstance(x, str)

    def __subclasscheck__(cls, c):
        return issubclass(c, str)


class sym_text_type(str, metaclass=_TextMeta):
    """stands for peewee.text_type (= str): isinstance works as for str, calling it passes shadows through"""

    def __new__(cls, v=""):
        if isinstance(v, (S.SRatio, S.SInt, sqlstub.JsonText)) or type(v).__name__ in ("SFloat", "SDatetime"):
            return v
        return str(v)


def sym_float(v=0.0):
    if isinstance(v, (S.SRatio, S.SInt)) or type(v).__name__ == "SFloat":
        return v
    return float(v)


def install_peewee():
    import peewee
    import playhouse.sqlite_ext as PEXT
    import aw_datastore.storages.peewee as PW

    C.stub(peewee, "sqlite3", sqlstub)
    C.stub(PEXT, "sqlite3", sqlstub)
    C.stub(peewee, "decimal", DecimalStub())
    C.stub(peewee, "text_type", sym_text_type)
    C.stub(peewee, "int", class_stub(int, S.sym_int))
    C.stub(PW, "json", JSON)
    C.stub(PW, "float", sym_float)
    import decimal as _dec

    if "Decimal" in PW.__dict__:
        C.stub(PW, "Decimal", class_stub(_dec.Decimal))
    if "decimal" in PW.__dict__:
        C.stub(PW, "decimal", DecimalStub())
    C.stub(PW, "get_data_dir", lambda name=None: "/stub/data")
    import iso8601
    from symex import sstr

    C.stub(iso8601, "parse_date", sstr.sym_parse_date(iso8601.parse_date, iso8601.ParseError))


def _seconds_to_us(v):
    """microseconds (term | int) of a duration cell holding seconds"""
    from fractions import Fraction
    import decimal

    if isinstance(v, S.SRatio):
        if 1000000 % v.d:
            raise Unsupported("duration cell with denominator %d" % v.d)
        return v.n * (1000000 // v.d)
    if isinstance(v, S.SInt):
        return v.z * 1000000
    if isinstance(v, (int, float, str, decimal.Decimal)):
        f = Fraction(str(v)) * 1000000
        if f.denominator != 1:
            raise Unsupported("sub-microsecond duration cell %r" % (v,))
        return int(f)
    raise Unsupported("duration cell %r" % type(v))


class PeeweeBackend(Backend):
    name = "peewee"

    def make(self, x, state, seq=None, meta=None, lazy=True):
        import aw_datastore.storages.peewee as PW
        from aw_datastore.storages import PeeweeStorage

        if x.sym:
            sqlstub.reset()
            ds = Datastore(PeeweeStorage, testing=True, filepath="/stub/peewee-%d.db" % id(x))
        else:
            self.tmp = tempfile.mkdtemp(prefix="vstore_")
            ds = Datastore(PeeweeStorage, testing=True, filepath=os.path.join(self.tmp, "p.db"))
        st = ds.storage_strategy
        self.first_life(ds, list(state))
        for bid in state:
            ds.create_bucket(bid, "type-" + bid, "client", "host-" + bid, created=T0, name="name-" + bid, data={"d": bid})
        conn = st.db.connection()
        if x.sym:
            et = conn.tables["eventmodel"]
            for bid, rows in state.items():
                key = st.bucket_keys[bid]
                for r in rows:
                    et.rows.append({"id": x.wrap(r.id), "__rowid__": x.wrap(r.id), "bucket_id": key, "timestamp": x.dt_us(r.start), "duration": S.SRatio(r.dur, 1000000) if S.is_z3(r.dur) else (r.dur / 1000000),
                                    "datastr": sqlstub.JsonText({"tag": x.wrap(r.tag)})})
            conn._commit()
        else:
            import json

            for bid, rows in state.items():
                key = st.bucket_keys[bid]
                for r in rows:
                    ts = (EPOCH + timedelta(microseconds=r.start)).isoformat(" ")
                    conn.execute('INSERT INTO "eventmodel" ("id", "bucket_id", "timestamp", "duration", "datastr") VALUES (?, ?, ?, ?, ?)', [r.id, key, ts, r.dur / 1000000, json.dumps({"tag": r.tag})])
        self.ds = ds
        return ds

    def _rows(self, ds, committed=False):
        st = ds.storage_strategy
        conn = st.db.connection()
        if isinstance(conn, sqlstub.Connection):
            tabs = conn.crash_image() if committed else conn.tables
            bt, et = tabs["bucketmodel"], tabs["eventmodel"]
            names = {r["key"]: r["id"] for r in bt.rows}
            out = {n: [] for n in names.values()}
            orphans = []
            for r in et.rows:
                tag = r["datastr"].obj.get("tag") if isinstance(r["datastr"], sqlstub.JsonText) else __import__("json").loads(r["datastr"]).get("tag")
                ts = r["timestamp"]
                if isinstance(ts, str) and not isinstance(ts, S.SDatetime):
                    import iso8601

                    ts = iso8601.parse_date(ts)
                row = Row(C.zv(r["id"]), S.dt_us(ts), _seconds_to_us(r["duration"]), C.zv(tag))
                b = r["bucket_id"]
                if isinstance(b, int) and b in names:
                    out[names[b]].append(row)
                else:
                    orphans.append(row)
            return out, orphans, {r["id"]: dict(r) for r in bt.rows}
        import json
        import sqlite3
        import iso8601

        c2 = sqlite3.connect(st.db.database)
        names = {r[0]: r[1] for r in c2.execute('SELECT "key", "id" FROM "bucketmodel"')}
        out = {n: [] for n in names.values()}
        orphans = []
        for rid, b, ts, dur, dstr in c2.execute('SELECT "id", "bucket_id", "timestamp", "duration", "datastr" FROM "eventmodel" ORDER BY "id"'):
            row = Row(rid, S.dt_us(iso8601.parse_date(ts)), _seconds_to_us(dur), json.loads(dstr).get("tag"))
            if b in names:
                out[names[b]].append(row)
            else:
                orphans.append(row)
        meta = {r[0]: r for r in c2.execute('SELECT "id", "name", "type", "client", "hostname", "created", "datastr" FROM "bucketmodel"')}
        c2.close()
        return out, orphans, meta

    def table_rows(self, ds, committed=False):
        out, orphans, _ = self._rows(ds, committed)
        if orphans:
            out["<orphans>"] = orphans
        return out

    def table_meta(self, ds, committed=False):
        return self._rows(ds, committed)[2]

    def close(self):
        try:
            self.ds.storage_strategy.db.close()
        except Exception:  # noqa
            pass
        Backend.close(self)


BACKENDS = {"memory": MemoryBackend, "sqlite": SqliteBackend, "peewee": PeeweeBackend}


def backend(name):
    return BACKENDS[name]()


# ----------------------------------------------------------------- comparing
def same_rows_as_sets(A, B):
    """multiset equality of two row lists whose ids are pairwise distinct"""
    if len(A) != len(B):
        return False
    return And([Sum([If(a.same(b), 1, 0) for b in B]) == 1 for a in A])


def same_rows_in_order(A, B):
    if len(A) != len(B):
        return False
    return And([a.same(b) for a, b in zip(A, B)])


def api_rows(ds, bid, limit=-1, start=None, end=None):
    return [row_of_event(e) for e in ds[bid].get(limit, start, end)]


def sorted_desc(rows):
    return And([rows[i].start >= rows[i + 1].start for i in range(len(rows) - 1)])


def show_rows(rows):
    return [r.show() for r in rows]
