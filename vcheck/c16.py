"""C16 — grouping, chunking, sorting and filtering conserve events and time."""
import sys

from symex import shadows as S
from symex.shadows import And, Or, Not, Implies, If, Sum, Iff
from . import common as C
from .common import Harness, mk_event, ev_start, ev_dur, ev_end, zv

import aw_core.models as M
import aw_transform.merge_events_by_keys  # noqa
import aw_transform.chunk_events_by_key  # noqa
import aw_transform.sort_by  # noqa
import aw_transform.filter_keyvals  # noqa

MRG = sys.modules["aw_transform.merge_events_by_keys"]
CHK = sys.modules["aw_transform.chunk_events_by_key"]
SRT = sys.modules["aw_transform.sort_by"]
FKV = sys.modules["aw_transform.filter_keyvals"]

PROP = "C16"
T_MAX_MS = 4_200_000_000_000
D_MAX_US = 10**13
KEYS = ["a", "b", "c"]


def install():
    C.stub(M, "int", S.sym_int)
    C.stub(SRT, "timedelta", S.sym_timedelta)
    for m_ in (MRG, CHK, SRT, FKV):
        C.shadow_module(m_)


def base_events(x, n, dmin=0, data=None, ordered_nonoverlap=False):
    T, D, evs = [], [], []
    for i in range(n):
        k = x.zint("k%d" % i, 0, T_MAX_MS)
        d = x.ranged("dm%d" % i, (dmin + 999) // 1000, 2**17) * 1000 if C.FLOATS else x.zint("d%d" % i, dmin, D_MAX_US)
        T.append(k * 1000)
        D.append(d)
    if ordered_nonoverlap:
        for i in range(n - 1):
            x.assume(T[i] + D[i] <= T[i + 1])
    for i in range(n):
        evs.append(mk_event(x, T[i], D[i], data[i] if data else {}, id=i, aligned=False))
    return evs, T, D


def val_eq(a, b):
    """logic equality of two data values (tags or lists of tags)"""
    if a is None or b is None:
        return a is None and b is None
    if isinstance(a, list) != isinstance(b, list):
        return False
    if isinstance(a, list):
        if len(a) != len(b):
            return False
        return And([zv(p) == zv(q) for p, q in zip(a, b)])
    return zv(a) == zv(b)


def sym_data(x, n, nkeys, nvals, listvals):
    """data dicts with a symbolic presence pattern over KEYS[:nkeys]; values are symbolic tags, an
    explicit None (or, when listvals, possibly a list of tags).  An extra unrelated key is always present."""
    datas = []
    for i in range(n):
        d = {"other": "o%d" % i}
        for kk in KEYS[:nkeys]:
            kind = x.choice("has_%s%d" % (kk, i), 4 if listvals else 3)
            if kind == 1:
                d[kk] = x.wrap(x.zint("v_%s%d" % (kk, i), 0, nvals - 1))
            elif kind == 2:
                d[kk] = None  # key present with an explicit null value
            elif kind == 3:
                ln = 1 + x.choice("len_%s%d" % (kk, i), 2)
                d[kk] = [x.wrap(x.zint("v_%s%d_%d" % (kk, i, q), 0, nvals - 1)) for q in range(ln)]
        datas.append(d)
    return datas


def snapshot(evs):
    return [(e, ev_start(e), ev_dur(e), dict(e.data), e.id) for e in evs]


def unmodified(evs, snap):
    if len(evs) != len(snap):
        return False
    conds = []
    for e, (o, t, d, data, id_) in zip(evs, snap):
        if e is not o or set(e.data) != set(data) or e.id != id_:
            return False
        conds.append(And(ev_start(e) == t, ev_dur(e) == d))
        for k in data:
            if e.data[k] is not data[k]:
                return False
    return And(conds)


def h_merge(x, n, nkeys, nvals=2, listvals=False):
    datas = sym_data(x, n, nkeys, nvals, listvals)
    evs, T, D = base_events(x, n, data=datas)
    snap = snapshot(evs)
    keys = KEYS[:nkeys]
    out = MRG.merge_events_by_keys(evs, list(keys))
    obl = []

    def same_group(da, db):
        conds = []
        for kk in keys:
            if (kk in da) != (kk in db):
                return False
            if kk in da:
                conds.append(val_eq(da[kk], db[kk]))
        return And(conds)

    for i in range(n):
        cnt = Sum([If(same_group(datas[i], o.data), 1, 0) for o in out])
        obl.append(("each-input-in-exactly-one-group-%d" % i, cnt == 1))
    for j, o in enumerate(out):
        members = Sum([If(same_group(datas[i], o.data), D[i], 0) for i in range(n)])
        obl.append(("group-duration-is-exact-sum-%d" % j, ev_dur(o) == members))
        obl.append(("group-has-only-the-given-keys-%d" % j, set(o.data) <= set(keys)))
        obl.append(("group-nonempty-%d" % j, Or([same_group(datas[i], o.data) for i in range(n)])))
        for j2 in range(j + 1, len(out)):
            obl.append(("groups-distinct", Not(same_group(o.data, out[j2].data))))
    obl.append(("total-duration-conserved", Sum([ev_dur(o) for o in out]) == Sum(D)))
    obl.append(("input-unmodified", unmodified(evs, snap)))
    obs = [len(out)] + [[sorted(o.data), ev_dur(o)] for o in out]
    return obl, obs


def h_chunk(x, n, nvals=2, chrono=True):
    datas = [{"a": x.wrap(x.zint("v%d" % i, 0, nvals - 1)), "other": i} for i in range(n)]
    evs, T, D = base_events(x, n, data=datas, ordered_nonoverlap=chrono)
    snap = snapshot(evs)
    out = CHK.chunk_events_by_key(evs, "a")
    obl = []
    subs = [s for o in out for s in o.data.get("subevents", [])]
    obl.append(("subevents-concatenate-to-input", len(subs) == n and all(s is e for s, e in zip(subs, evs))))
    idx = 0
    V = [zv(d["a"]) for d in datas]
    for j, o in enumerate(out):
        m = len(o.data["subevents"])
        mem = list(range(idx, idx + m))
        idx += m
        if not mem or mem[-1] >= n:
            obl.append(("chunk-nonempty-%d" % j, False))
            continue
        obl.append(("chunk-shares-value-%d" % j, And([V[i] == zv(o.data["a"]) for i in mem])))
        obl.append(("chunk-duration-adds-up-%d" % j, ev_dur(o) == Sum([D[i] for i in mem])))
        obl.append(("chunk-starts-at-first-subevent-%d" % j, ev_start(o) == T[mem[0]]))
        if chrono and j > 0:
            obl.append(("adjacent-chunks-differ-%d" % j, Not(zv(o.data["a"]) == zv(out[j - 1].data["a"]))))
    obl.append(("total-duration-conserved", Sum([ev_dur(o) for o in out]) == Sum(D)))
    obl.append(("input-unmodified", unmodified(evs, snap)))
    obs = [len(out)] + [[len(o.data["subevents"]), ev_dur(o)] for o in out]
    return obl, obs


def h_sort(x, n, which):
    evs, T, D = base_events(x, n, data=[{"i": i} for i in range(n)])
    snap = snapshot(evs)
    order = list(evs)
    if which == "timestamp":
        out = SRT.sort_by_timestamp(evs)
        key = [ev_start(o) for o in out]
        ordered = And([key[i] <= key[i + 1] for i in range(len(out) - 1)])
    else:
        out = SRT.sort_by_duration(evs)
        key = [ev_dur(o) for o in out]
        ordered = And([key[i] >= key[i + 1] for i in range(len(out) - 1)])
    perm = len(out) == n and all(sum(1 for o in out if o is e) == 1 for e in order)
    obl = [("permutation", perm), ("ordered", ordered), ("input-unmodified", unmodified(evs, snap) if True else True), ("input-order-kept", all(a is b for a, b in zip(evs, order)))]
    return obl, [[o.data["i"] for o in out]]


def h_limit_concat_sum(x, n):
    evs, T, D = base_events(x, n, data=[{"i": i} for i in range(n)])
    snap = snapshot(evs)
    cnt = x.choice("count", n + 3) - 1  # -1 .. n+1
    out = SRT.limit_events(evs, cnt)
    obl = [("limit-is-a-prefix", len(out) <= n and all(a is b for a, b in zip(out, evs)) and (cnt < 0 or len(out) == min(cnt, n)))]
    split = x.choice("split", n + 1)
    a, b = evs[:split], evs[split:]
    cc = SRT.concat(a, b)
    obl.append(("concat-is-concatenation", len(cc) == n and all(p is q for p, q in zip(cc, evs)) and len(a) == split and len(b) == n - split))
    tot = SRT.sum_durations(evs)
    obl.append(("sum-is-exact", S.td_us(tot) == Sum(D)))
    obl.append(("input-unmodified", unmodified(evs, snap)))
    return obl, [cnt, split, len(out)]


def h_filter(x, n, nvals=3, nlist=2):
    datas = []
    for i in range(n):
        kind = x.choice("has%d" % i, 2)
        d = {"other": i}
        if kind:
            d["a"] = x.wrap(x.zint("v%d" % i, 0, nvals - 1))
        datas.append(d)
    evs, T, D = base_events(x, n, data=datas)
    snap = snapshot(evs)
    vals = [x.wrap(x.zint("w%d" % q, 0, nvals - 1)) for q in range(nlist)]
    inc = FKV.filter_keyvals(evs, "a", vals, False)
    exc = FKV.filter_keyvals(evs, "a", vals, True)
    obl = []

    def pos(lst):
        ids = []
        for o in lst:
            hit = [i for i, e in enumerate(evs) if e is o]
            if len(hit) != 1:
                return None
            ids.append(hit[0])
        return ids

    pi, pe = pos(inc), pos(exc)
    obl.append(("results-are-input-events", pi is not None and pe is not None))
    if pi is not None and pe is not None:
        obl.append(("order-preserved", pi == sorted(pi) and pe == sorted(pe) and len(set(pi)) == len(pi) and len(set(pe)) == len(pe)))
        obl.append(("complementary", sorted(pi + pe) == list(range(n))))
        for i in range(n):
            pred = Or([zv(datas[i]["a"]) == zv(v) for v in vals]) if "a" in datas[i] else False
            obl.append(("included-iff-predicate-%d" % i, Iff(i in pi, pred)))
    obl.append(("input-unmodified", unmodified(evs, snap)))
    return obl, [pi, pe]


def harnesses(tier):
    install()
    hs = []
    if tier == "quick":
        merges = [(2, 2, False, 120), (3, 2, False, 300), (2, 2, True, 300), (3, 1, False, 60)]
        chunks = [(3, True), (4, True), (3, False)]
        sorts = [3, 4]
        filt = [3]
    else:
        merges = [(2, 2, False, 120), (3, 2, False, 300), (4, 2, False, 1800), (3, 3, False, 1800), (2, 2, True, 300), (3, 2, True, 1800)]
        chunks = [(3, True), (4, True), (5, True), (6, True), (3, False), (4, False), (5, False)]
        sorts = [3, 4, 5]
        filt = [3, 4, 5]
    hs.append((Harness(PROP, "merge_events_by_keys-n2-k1-float-semantics", C.with_floats(h_merge), dict(n=2, nkeys=1, listvals=False), "merge_events_by_keys on 2 events with IEEE double semantics for any float arithmetic, durations whole ms < 2^17 in binary range pieces", split_depth=7, fresh_solver=True), 600))
    hs.append((Harness(PROP, "chunk_events_by_key-n2-float-semantics", C.with_floats(h_chunk), dict(n=2, chrono=True), "chunk_events_by_key on 2 events with IEEE double semantics for any float arithmetic, durations whole ms < 2^17 in binary range pieces", split_depth=7, fresh_solver=True), 600))
    hs.append((Harness(PROP, "sort_by_duration-n2-float-semantics", C.with_floats(h_sort), dict(n=2, which="duration"), "sort_by_duration on 2 events with IEEE double semantics for any float arithmetic, durations whole ms < 2^17 in binary range pieces", split_depth=7, fresh_solver=True), 600))
    hs.append((Harness(PROP, "limit-concat-sum-n2-float-semantics", C.with_floats(h_limit_concat_sum), dict(n=2), "limit_events / concat / sum_durations on 2 events with IEEE double semantics for any float arithmetic, durations whole ms < 2^17 in binary range pieces", split_depth=7, fresh_solver=True), 600))
    if tier == "thorough":
        hs.append((Harness(PROP, "limit-concat-sum-n2-float-semantics-wide", C.with_floats(h_limit_concat_sum, pieces=40), dict(n=2), "limit_events / concat / sum_durations on 2 events with IEEE double semantics, durations whole ms < 2^40 (~35 years) in binary range pieces", split_depth=7, fresh_solver=True), 3600))
        hs.append((Harness(PROP, "limit-concat-sum-n3-float-semantics", C.with_floats(h_limit_concat_sum, pieces=12), dict(n=3), "sum_durations on 3 events with IEEE double semantics, durations whole ms < 2^12", split_depth=7, fresh_solver=True), 3600))
    for n, nk, lv, budget in merges:
        hs.append((Harness(PROP, "merge_events_by_keys-n%d-k%d%s" % (n, nk, "-listvalues" if lv else ""), h_merge, dict(n=n, nkeys=nk, listvals=lv),
                           "merge_events_by_keys on %d events, %d keys, symbolic presence pattern and values" % (n, nk), split_depth=8), budget))
    for n, chrono in chunks:
        hs.append((Harness(PROP, "chunk_events_by_key-n%d-%s" % (n, "chronological" if chrono else "anyorder"), h_chunk, dict(n=n, chrono=chrono),
                           "chunk_events_by_key on %d key-bearing events" % n), 600))
    for n in sorts:
        hs.append((Harness(PROP, "sort_by_timestamp-n%d" % n, h_sort, dict(n=n, which="timestamp"), "sort_by_timestamp"), 600))
        hs.append((Harness(PROP, "sort_by_duration-n%d" % n, h_sort, dict(n=n, which="duration"), "sort_by_duration"), 600))
    hs.append((Harness(PROP, "limit-concat-sum-n3", h_limit_concat_sum, dict(n=3), "limit_events / concat / sum_durations"), 120))
    for n in filt:
        hs.append((Harness(PROP, "filter_keyvals-n%d" % n, h_filter, dict(n=n), "filter_keyvals include / exclude with symbolic values, key missing on some events"), 600))
    return hs


def meta(chk, tier):
    chk.functions = C.source_files("aw_transform/merge_events_by_keys.py", "aw_transform/chunk_events_by_key.py", "aw_transform/sort_by.py", "aw_transform/filter_keyvals.py", "aw_core/models.py")
    chk.functions.append(dict(functions=["merge_events_by_keys", "chunk_events_by_key", "sort_by_timestamp", "sort_by_duration", "limit_events", "concat", "sum_durations", "filter_keyvals (include / exclude)"]))
    chk.bounds = [
        "merge: N<=3 events, K<=2 keys (quick); N<=4/K=2, N=3/K=3, list-valued keys N<=3 (thorough); presence pattern explored by forking, values symbolic tags (2 values) or lists of 1..2 tags",
        "chunk: N<=4 (quick), N<=6 (thorough), 2 symbolic values; sort: N<=4 (quick), N<=5 (thorough); filter: N=3 (quick), N<=5 (thorough), 3 symbolic values, 2-element value list",
        "timestamps multiples of 1 ms in [1970, ~2103]; durations integer microseconds in [0, 1e13]",
    ]
    chk.stubs = ["aw_core.models.int -> sym_int", "aw_transform.sort_by.timedelta -> sym_timedelta (exact mode: float rounding of sum_durations not modelled)", "symbolic tags hash to a constant so dict/tuple/list membership falls through to == (which forks)"]
    chk.assumptions = [
        "filter_keyvals_regex is outside the claim (regex engine is C code)",
        "chunk_events_by_key: 'adjacent chunks differ in value' is asserted only for chronological, non-overlapping input with the default pulsetime (where the code's time test cannot fire); every event bears the key",
        "sum_durations in exact arithmetic (float rounding outside the claim)",
    ]


def main(tier, seed, args):
    return C.run_check(sys.modules[__name__], tier, seed, args)
