"""C06 — after a crash the database holds a prefix of what was done, minus a bounded tail
(and C18 — buffered writes are flushed once they are about ten seconds old: same harness)."""
import os
import sys
from datetime import datetime, timedelta, timezone

import z3

from symex import shadows as S
from symex import sqlstub
from symex.shadows import And, Or, Not, If, Sum, Implies
from . import common as C
from .common import Harness
from . import store as ST
from .store import Row

import aw_datastore.storages.sqlite as SQ

PROP = "C06"
EVENT_WRITES = ["insert_one", "insert_many_new", "insert_many_120", "insert_many_upsert", "insert_many_upsert_only", "replace", "replace_last", "delete_live", "delete_missing"]
EVENT_READS = ["get", "get_by_id", "get_eventcount"]
BUCKET_OPS = ["create_bucket", "update_bucket", "update_bucket_data_only", "update_bucket_each_single_field", "delete_bucket", "delete_bucket_2001_events"]
FAILING_BUCKET_OPS = ["delete_missing_bucket", "create_duplicate_bucket", "update_missing_bucket"]
N_BIG = 2001
LIMIT = 50  # documented batch size
AGE_S = 10


def pending_native(ds):
    """number of elementary row differences between the writing connection's view and what a fresh
    connection to the file sees (= what survives a crash now)"""
    import sqlite3

    conn = ds.storage_strategy.conn
    path = conn.execute("PRAGMA database_list").fetchone()[2]
    c2 = sqlite3.connect(path)
    diff = 0
    for table, key in (("events", "id"), ("buckets", "rowid")):
        mine = {r[0]: r for r in conn.execute("SELECT %s, * FROM %s" % (key, table))}
        theirs = {r[0]: r for r in c2.execute("SELECT %s, * FROM %s" % (key, table))}
        for k in set(mine) | set(theirs):
            if mine.get(k) != theirs.get(k):
                diff += 1
    c2.close()
    return diff


def h_step(x, op, lazy=True, na=2, flush_first=False, other_store=False):
    A = ST.sym_rows(x, "a", na)
    B = ST.sym_rows(x, "b", 1)
    ST.distinct(x, [r.id for r in A + B])
    be = ST.backend("sqlite")
    # pre-state of the commit machinery
    n0 = x.zint("n0", 0, LIMIT)
    w0 = x.zint("w0", 0, LIMIT)
    x.assume(w0 <= n0)
    if not lazy:
        x.assume(And(w0 == 0, n0 == 0))  # eager mode: nothing is ever left buffered
    c = x.zint("c_ms", 0, ST.T_MAX_MS)  # instant of the last flush
    d1 = x.zint("delta1_us", 0, 40 * 86400 * 10**6)  # time from the last flush to this call's first clock reading (up to 40 days)
    d2 = x.zint("delta2_us", 0, 10**9)  # further (non-decreasing) readings
    now1, now2 = c * 1000 + d1, c * 1000 + d1 + d2
    clock = ST.Clock(fixed=[x.dt_us(now1), x.dt_us(now2), x.dt_us(now2), x.dt_us(now2), x.dt_us(now2)])
    loff = x.zint("local_utc_offset_min", -840, 840)  # the process's local time zone: datetime.now() is naive local time
    prev_dt = SQ.__dict__.get("datetime")
    SQ.__dict__["datetime"] = S.SymDatetimeClass(clock, loff)
    try:
        ds = be.make(x, {"A": A, "B": B}, lazy=lazy)
        st = ds.storage_strategy
        conn = st.conn
        # load the pre-state: w0 buffered elementary writes, counter n0, last flush at c
        if x.sym:
            conn.uncommitted_writes = w0
            conn.in_transaction = True
            st.num_uncommitted_statements = S.SInt(n0)
            mark = len(conn.log)
            commits_before = conn.commits
        else:
            for i in range(w0):
                conn.execute("INSERT INTO events(bucketrow, starttime, endtime, datastr) VALUES ((SELECT rowid FROM buckets WHERE id = 'B'), ?, ?, '{}')", [i, i])
            st.num_uncommitted_statements = n0
        # last flush at instant c, recorded the way commit() records it: datetime.now() (naive local time)
        native_log = []
        if not x.sym:
            real_conn = st.conn

            class LogConn:
                def execute(self_, sql, *a):
                    if sql.lstrip().split()[0].upper() in ("INSERT", "UPDATE", "DELETE"):
                        native_log.append("w")
                    return real_conn.execute(sql, *a)

                def executemany(self_, sql, seq):
                    native_log.append("w")
                    return real_conn.executemany(sql, seq)

                def commit(self_):
                    native_log.append("c")
                    return real_conn.commit()

                def __getattr__(self_, name):
                    return getattr(real_conn, name)

            st.conn = LogConn()
            conn = real_conn
        st.last_commit = ST.Clock(fixed=[x.dt_us(c * 1000)]) and S.SymDatetimeClass(ST.Clock(fixed=[x.dt_us(c * 1000)]), loff).now()
        clock.n = 0
        clock.calls = []
        b = ds["A"]
        if flush_first:
            # the previous flush is performed by the code under test itself (a read commits and records the
            # time of the flush); the write under test then comes delta1 later
            flush_clock = ST.Clock(fixed=[x.dt_us(c * 1000)])
            SQ.__dict__["datetime"] = S.SymDatetimeClass(flush_clock, loff)
            b.get_eventcount()
            SQ.__dict__["datetime"] = S.SymDatetimeClass(clock, loff)
            if x.sym:
                mark = len(conn.log)
            w0 = 0
        new = ST.sym_rows(x, "n", 2, ids=False)
        if other_store:
            # a second store object (its own file) is alive in the process and has just been written and flushed:
            # nothing of that may leak into this store's commit bookkeeping
            from aw_datastore import Datastore as _DS
            from aw_datastore.storages import SqliteStorage as _SQS

            path2 = "/stub/other-%d.db" % id(x) if x.sym else os.path.join(be.tmp, "other.db")
            ds2 = _DS(_SQS, testing=True, filepath=path2, enable_lazy_commit=True)
            ds2.create_bucket("O", "t", "c", "h", created=ST.T0)
            ds2["O"].insert(ST.event_of_row(x, new[1]))
            ds2["O"].get_eventcount()
            clock.n = 0
            clock.calls = []
            if x.sym:
                mark = len(conn.log)
        if op == "delete_bucket_2001_events":
            # a populated bucket: 2001 (concrete) events, flushed, then the bucket is deleted
            b.insert([C.mk_event(x, (1500000000000 + 1000 * i) * 1000, 500000, {"tag": i % 3}, aligned=True) for i in range(N_BIG)])
            b.get_eventcount()
            clock.n = 0
            clock.calls = []
            if x.sym:
                mark = len(conn.log)
            else:
                del native_log[:]
            w0 = 0
        if op == "insert_one":
            b.insert(ST.event_of_row(x, new[0]))
        elif op == "insert_many_new":
            b.insert([ST.event_of_row(x, new[0]), ST.event_of_row(x, new[1])])
        elif op == "insert_many_120":
            # one bulk insert larger than the batch size: concrete contents, 120 events
            from datetime import timedelta as _td

            b.insert([C.mk_event(x, (1600000000000 + 1000 * i) * 1000, 500000, {"tag": i % 3}, aligned=True) for i in range(120)])
        elif op == "insert_many_upsert":
            b.insert([C.mk_event(x, new[0].start, new[0].dur, {"tag": x.wrap(new[0].tag)}, id=x.wrap(A[0].id), aligned=False), ST.event_of_row(x, new[1])])
        elif op == "insert_many_upsert_only":
            b.insert([C.mk_event(x, new[0].start, new[0].dur, {"tag": x.wrap(new[0].tag)}, id=x.wrap(A[0].id), aligned=False)])
        elif op in FAILING_BUCKET_OPS:
            try:
                if op == "delete_missing_bucket":
                    ds.delete_bucket("ghost")
                elif op == "create_duplicate_bucket":
                    ds.create_bucket("A", "t", "c", "h", created=ST.T0)
                else:
                    ds.update_bucket("ghost", name="n")
            except Exception as e:  # noqa
                failed = type(e).__name__
        elif op == "replace":
            b.replace(x.wrap(A[0].id), ST.event_of_row(x, new[0]))
        elif op == "replace_last":
            b.replace_last(ST.event_of_row(x, new[0]))
        elif op == "delete_live":
            b.delete(x.wrap(A[0].id))
        elif op == "delete_missing":
            mid = x.zint("missing", 1, 3 * 10**6)
            for r in A + B:
                x.assume(mid != r.id)
            b.delete(x.wrap(mid))
        elif op == "get":
            b.get(-1)
        elif op == "get_by_id":
            b.get_by_id(x.wrap(A[0].id))
        elif op == "get_eventcount":
            b.get_eventcount()
        elif op == "create_bucket":
            ds.create_bucket("C", "t", "c", "h", created=ST.T0)
        elif op == "update_bucket":
            ds.update_bucket("A", name="other")
        elif op == "update_bucket_data_only":
            ds.update_bucket("A", data={"k": 2})
        elif op == "update_bucket_each_single_field":
            field = ["type_id", "client", "hostname", "name", "data"][x.choice("field", 5)]
            ds.update_bucket("A", **{field: ({"k": 3} if field == "data" else "changed")})
        elif op in ("delete_bucket", "delete_bucket_2001_events"):
            ds.delete_bucket("A")
        else:
            raise ValueError(op)
        n1 = C.zv(st.num_uncommitted_statements)
        if x.sym:
            w1 = conn.uncommitted_writes
            # statements of this call, and where commits fell among them
            writes = [i for i in conn.write_log if i > mark]
            commits = [i for i in conn.commit_points if i >= mark]
            split = any(writes[0] <= cp < writes[-1] for cp in commits) if len(writes) > 1 else False
        else:
            w1 = pending_native(ds)
            # natively: statements and commits as seen by a logging proxy around the real connection
            ev_ = [k for k in native_log if k in ("w", "c")]
            split = ("c" in ev_[ev_.index("w"): len(ev_) - 1 - ev_[::-1].index("w")]) if ev_.count("w") > 1 else False
        obl = []
        obs = [op, n1]
        if op in FAILING_BUCKET_OPS:
            # a rejected bucket operation must not throw away event writes that were buffered before it
            if x.sym:
                lost = sum(1 for r in conn.rollbacks if not (isinstance(r, int) and r == 0))
                obl.append(("rejected-bucket-operation-keeps-buffered-writes", Or(w0 == 0, lost == 0) if lost else True))
            else:
                visible = conn.execute("SELECT count(*) FROM events WHERE bucketrow = (SELECT rowid FROM buckets WHERE id = 'B')").fetchone()[0]
                obl.append(("rejected-bucket-operation-keeps-buffered-writes", visible == 1 + w0))
        elif op in BUCKET_OPS:
            obl.append(("bucket-operation-durable-on-return", w1 == 0))
            obl.append(("operation-not-split-by-a-commit", not split))
        elif op in EVENT_READS:
            obl.append(("read-flushes-buffered-writes", w1 == 0))
        else:
            if lazy:
                obl.append(("buffered-writes-bounded-by-counter", w1 <= n1))
                obl.append(("counter-bounded-by-batch-size", And(n1 <= LIMIT, n1 >= 0)))
                # C18: whatever is still buffered when the write returns was buffered less than ~10 s after the
                # most recent flush (for a single-statement write: issued > 10 s after the previous flush => durable)
                # C18: an event write issued more than ~10 s (11 s) after the previous flush is durable on return
                obl.append(("flushed-when-last-flush-older-than-10s", Implies(d1 > (AGE_S + 1) * 10**6, w1 == 0)))
                # sensitivity: a recent flush and a low counter must NOT force a commit (the batching is real)
                if op == "insert_one":
                    obl.append(("recent-flush-low-counter-keeps-buffering", Implies(And(d1 + d2 < AGE_S * 10**6, n0 < LIMIT - 1), w1 == w0 + 1)))
            else:
                obl.append(("eager-mode-durable-on-return", w1 == 0))
            if op not in ("insert_many_new", "insert_many_120", "insert_many_upsert", "insert_many_upsert_only"):
                obl.append(("operation-not-split-by-a-commit", not split))
        return obl, obs
    finally:
        if prev_dt is not None:
            SQ.__dict__["datetime"] = prev_dt
        be.close()


HIST_OPS = ["insert_one", "replace_last", "delete_a0", "read", "update_bucket"]


def state_eq(a, b):
    """two (rows per bucket, bucket names) snapshots describe the same database content"""
    (ra, ma), (rb, mb) = a, b
    if ma != mb or set(ra) != set(rb):
        return False
    conds = []
    for k in ra:
        c = ST.same_rows_as_sets(ra[k], rb[k])
        if c is False:
            return False
        conds.append(c)
    return And(conds)


def h_history(x, L, which="C06"):
    """L operations with arbitrary gaps between them on the lazily-committing store; a crash after each:
    the reopened file equals the working state at an earlier operation boundary (a prefix, no operation
    split), reads and bucket operations are durable on return, and an event write issued more than ~10 s
    after the most recent flush is durable on return"""
    A = ST.sym_rows(x, "a", 1)
    B = ST.sym_rows(x, "b", 1)
    ST.distinct(x, [r.id for r in A + B])
    be = ST.backend("sqlite")
    n0 = x.zint("n0", 0, LIMIT)
    c = x.zint("c_ms", 0, ST.T_MAX_MS)
    loff = x.zint("local_utc_offset_min", -840, 840)
    clock = ST.Clock(fixed=[x.dt_us(c * 1000)])
    prev_dt = SQ.__dict__.get("datetime")
    SQ.__dict__["datetime"] = S.SymDatetimeClass(clock, loff)
    try:
        ds = be.make(x, {"A": A, "B": B}, lazy=True)
        st = ds.storage_strategy
        st.num_uncommitted_statements = S.SInt(n0) if x.sym else n0
        st.last_commit = S.SymDatetimeClass(ST.Clock(fixed=[x.dt_us(c * 1000)]), loff).now()
        flushed_in = []
        orig_commit = st.commit
        cur = [None]

        def counting_commit():
            flushed_in.append(cur[0])
            return orig_commit()

        st.commit = counting_commit
        b = ds["A"]

        def snap(committed):
            rows = be.table_rows(ds, committed=committed)
            meta = be.table_meta(ds, committed=committed)
            return rows, sorted((k, str(m["name"])) for k, m in meta.items())

        snaps = [snap(False)]
        obl = []
        trace = []
        now = c * 1000
        last_flush = c * 1000
        for i in range(L):
            op = HIST_OPS[x.choice("op%d" % i, len(HIST_OPS))]
            gap = x.zint("gap%d_us" % i, 0, 40 * 86400 * 10**6)
            now = now + gap
            clock.fixed = [x.dt_us(now)]
            clock.n = 0
            cur[0] = i
            new = ST.sym_rows(x, "n%d" % i, 1, ids=False)[0]
            if op == "insert_one":
                b.insert(ST.event_of_row(x, new))
            elif op == "replace_last":
                if len(snaps[-1][0]["A"]) == 0:  # nothing to replace
                    x.assume(False)
                b.replace_last(ST.event_of_row(x, new))
            elif op == "delete_a0":
                b.delete(x.wrap(A[0].id))
            elif op == "read":
                b.get(-1)
            elif op == "update_bucket":
                ds.update_bucket("B", name="renamed-%d" % i)
            trace.append(op)
            S_i = snap(False)
            C_i = snap(True)
            snaps.append(S_i)
            durable = state_eq(C_i, S_i)
            if which == "C06":
                obl.append(("crash-image-is-the-state-at-an-operation-boundary-step%d" % i, Or([state_eq(C_i, s_) for s_ in snaps])))
                if op in ("read", "update_bucket"):
                    obl.append(("%s-durable-on-return-step%d" % ("read-flushes" if op == "read" else "bucket-operation", i), durable))
            else:
                if op in ("insert_one", "replace_last", "delete_a0"):
                    obl.append(("event-write-more-than-10s-after-last-flush-is-durable-step%d" % i, Implies(now - last_flush > (AGE_S + 1) * 10**6, durable)))
            if i in flushed_in:
                last_flush = now
        return obl, trace
    finally:
        if prev_dt is not None:
            SQ.__dict__["datetime"] = prev_dt
        be.close()


def h_peewee(x, op):
    """auto-committing store: every completed operation is durable, no transaction is ever opened"""
    A = ST.sym_rows(x, "a", 2)
    B = ST.sym_rows(x, "b", 1)
    ST.distinct(x, [r.id for r in A + B])
    be = ST.backend("peewee")
    ds = be.make(x, {"A": A, "B": B})
    try:
        b = ds["A"]
        conn = ds.storage_strategy.db.connection()
        mark = len(conn.log) if x.sym else 0
        new = ST.sym_rows(x, "n", 2, ids=False)
        if op == "insert_one":
            b.insert(ST.event_of_row(x, new[0]))
        elif op == "insert_many_new":
            b.insert([ST.event_of_row(x, new[0]), ST.event_of_row(x, new[1])])
        elif op == "insert_many_upsert":
            b.insert([C.mk_event(x, new[0].start, new[0].dur, {"tag": x.wrap(new[0].tag)}, id=x.wrap(A[0].id), aligned=False), ST.event_of_row(x, new[1])])
        elif op == "replace":
            b.replace(x.wrap(A[0].id), ST.event_of_row(x, new[0]))
        elif op == "replace_last":
            b.replace_last(ST.event_of_row(x, new[0]))
        elif op == "delete_live":
            b.delete(x.wrap(A[0].id))
        elif op == "create_bucket":
            ds.create_bucket("C", "t", "c", "h", created=ST.T0)
        elif op == "update_bucket":
            ds.update_bucket("A", name="other")
        elif op == "delete_bucket":
            ds.delete_bucket("A")
        elif op == "write_after_rejected_bulk_insert":
            bad = C.mk_event(x, new[1].start, new[1].dur, {"tag": x.wrap(new[1].tag), "bad": {1, 2}}, aligned=False)
            try:
                b.insert([ST.event_of_row(x, new[0]), bad])
            except Exception:  # noqa — the caller catches the rejection and carries on
                pass
            b.insert(ST.event_of_row(x, new[0]))
            b.replace(x.wrap(A[0].id), ST.event_of_row(x, new[1]))
        if x.sym:
            obl = [("every-completed-operation-durable", conn.uncommitted_writes == 0 and same_tables(conn.tables, conn.crash_image())),
                   ("no-transaction-left-open", not conn.explicit_txn and not conn.in_transaction and conn.isolation_level is None)]
        else:
            import sqlite3

            c2 = sqlite3.connect(ds.storage_strategy.db.database)
            same = all(list(conn.execute('SELECT * FROM "%s" ORDER BY 1' % t)) == list(c2.execute('SELECT * FROM "%s" ORDER BY 1' % t)) for t in ("eventmodel", "bucketmodel"))
            c2.close()
            obl = [("every-completed-operation-durable", same), ("no-transaction-left-open", conn.isolation_level is None and not conn.in_transaction)]
        return obl, [op]
    finally:
        be.close()


def same_tables(a, b):
    if set(a) != set(b):
        return False
    for k in a:
        if len(a[k].rows) != len(b[k].rows):
            return False
        for r1, r2 in zip(a[k].rows, b[k].rows):
            if set(r1) != set(r2) or any(r1[c] is not r2[c] and not (isinstance(r1[c], (int, str, float, type(None))) and r1[c] == r2[c]) for c in r1):
                return False
    return True


def select(obl_filter):
    def h(x, **kw):
        obl, obs = h_step(x, **kw)
        return [(n, o) for n, o in obl if obl_filter(n)], obs

    return h


h_c06 = select(lambda n: n != "flushed-when-last-flush-older-than-10s")
h_c18 = select(lambda n: n in ("flushed-when-last-flush-older-than-10s", "recent-flush-low-counter-keeps-buffering"))


def harnesses(tier, prop=PROP, fn=None):
    ST.install_common()
    ST.install_sqlite()
    fn = fn or h_c06
    hs = []
    ops = EVENT_WRITES + (EVENT_READS + BUCKET_OPS + FAILING_BUCKET_OPS if prop == "C06" else [])
    if prop == "C18":
        for op in EVENT_WRITES:
            hs.append((Harness(prop, "sqlite-lazy-after-own-flush-%s" % op, fn, dict(op=op, lazy=True, flush_first=True), "sqlite (lazy commit): a read flushes (the code records the time itself), then %s delta later" % op, split_depth=6), 1800))
    for op in ops:
        hs.append((Harness(prop, "sqlite-lazy-%s" % op, fn, dict(op=op, lazy=True), "sqlite (lazy commit): %s from an arbitrary commit-machinery state (counter, buffered writes, age of last flush symbolic)" % op, split_depth=6), 1800))
    for op in ["insert_one", "replace_last"]:
        hs.append((Harness(prop, "sqlite-lazy-%s-second-store-active" % op, fn, dict(op=op, lazy=True, other_store=True), "sqlite (lazy commit): %s while a second store object in the same process has just written and flushed" % op, split_depth=6), 1800))
    for L in ([2] if tier == "quick" else [2, 3, 4]):
        hs.append((Harness(prop, "sqlite-lazy-history-L%d" % L, h_history, dict(L=L, which=prop), "sqlite (lazy commit): every history of %d operations out of %s with arbitrary gaps (0..40 days) between them, crash after each" % (L, HIST_OPS), split_depth=8), 3600))
    if prop == "C06":
        ST.install_peewee()
        for op in ["insert_one", "insert_many_new", "insert_many_upsert", "replace", "replace_last", "delete_live", "create_bucket", "update_bucket", "delete_bucket", "write_after_rejected_bulk_insert"]:
            hs.append((Harness(prop, "peewee-%s" % op, h_peewee, dict(op=op), "peewee (auto-commit): %s — durable on return, no transaction opened" % op, split_depth=6), 900))
        for op in EVENT_WRITES:
            hs.append((Harness(prop, "sqlite-eager-%s" % op, fn, dict(op=op, lazy=False), "sqlite (enable_lazy_commit=False): %s" % op, split_depth=6), 1800))
    return hs


def meta(chk, tier):
    chk.functions = C.source_files("aw_datastore/storages/sqlite.py", "aw_datastore/datastore.py")
    chk.functions.append(dict(functions=["SqliteStorage.commit", "conditional_commit", "insert_one", "insert_many", "replace", "replace_last", "delete", "get_event(s)", "get_eventcount", "create/update/delete_bucket"]))
    chk.bounds = [
        "single step from an arbitrary state: num_uncommitted_statements n0 in [0,50], buffered elementary writes w0 <= n0, last flush at any instant, clock readings any non-decreasing instants up to 1000 s later",
        "two buckets with 2+1 events; every operation kind; lazy and eager commit modes",
        "a second SqliteStorage object (own file) alive and just flushed, for insert_one and replace_last",
        "histories of 2 (thorough: up to 4) operations (insert, replace_last, delete, read, bucket update) with symbolic gaps of 0..40 days, counter start symbolic in [0,50], crash after every operation",
    ]
    chk.stubs = ["sqlite3 -> symex.sqlstub: committed snapshot vs working copy; commit() copies working -> committed; a crash discards the working copy",
                 "sqlite.datetime.now() -> symbolic clock (arbitrary non-decreasing instants)"]
    chk.assumptions = [
        "TRUSTED, not verified: SQLite rolls back exactly the statements since the last COMMIT when the process dies (atomic commit, WAL); the 'prefix in issue order' part of the property holds by this contract",
        "inductive invariant: buffered writes <= counter <= 50",
        "peewee: every statement commits (isolation_level=None); asserted per operation: nothing buffered, committed image equals the working tables, no BEGIN/ROLLBACK issued",
    ]


def main(tier, seed, args):
    return C.run_check(sys.modules[__name__], tier, seed, args)
