"""C13 — events normalise to UTC milliseconds and survive JSON round trips."""
import sys
from datetime import datetime, timedelta, timezone, tzinfo
from fractions import Fraction

import z3

from symex import shadows as S
from symex import sstr
from symex import fp
from symex import engine as E
from symex.shadows import And, Or, Not, Implies
from . import common as C
from .common import Harness

import aw_core.models as M
from aw_core.models import Event

PROP = "C13"
U_MAX = 4_200_000_000_000_000  # microseconds: 1970 .. ~2103
OFF_MAX = 14 * 60
D_MAX_US = 30 * 86400 * 10**6


def install():
    C.stub(M, "int", S.sym_int)
    C.stub(M, "timedelta", S.sym_timedelta)
    import iso8601

    C.stub(M.iso8601, "parse_date", sstr.sym_parse_date(iso8601.parse_date, iso8601.ParseError))


class ieee:
    def __enter__(self):
        fp.IEEE = True

    def __exit__(self, *a):
        fp.IEEE = False


def instant(x, name="u"):
    u = x.zint(name, 0, U_MAX)
    off = x.zint(name + "_off", -OFF_MAX, OFF_MAX)
    return u, off, x.dt_us(u, off, False)


def is_utc(dt):
    o = dt.utcoffset()
    return dt.tzinfo is not None and S.td_us(o) == 0


def h_normalise(x, durkind):
    """exact integer arithmetic: instant floor + UTC; duration kinds; setters; JSON round trips"""
    u, off, ts = instant(x)
    if durkind == "timedelta":
        d = x.zint("d", -D_MAX_US, D_MAX_US)
        dur = x.td_us(d)
        want_d = d
    elif durkind == "int":
        s = x.zint("s", -10**7, 10**7)
        dur = x.wrap(s)
        want_d = s * 10**6
    elif durkind == "float-exact":
        d = x.zint("d", 0, D_MAX_US)
        dur = x.seconds_us(d)  # the float nearest to d/10^6 (native) / the exact ratio (symbolic, exact mode)
        want_d = d
    else:
        raise ValueError(durkind)
    e = Event(id=7, timestamp=ts, duration=dur, data={"k": [1, {"n": None}], "ü": "q\"'"})
    obl = []
    floor = u - u % 1000
    obl.append(("instant-floored-to-ms", S.dt_us(e.timestamp) == floor))
    obl.append(("timestamp-is-utc", is_utc(e.timestamp)))
    obl.append(("duration-kept-to-the-microsecond", S.td_us(e.duration) == want_d))
    obl.append(("duration-is-timedelta", isinstance(e.duration, timedelta)))
    # setters normalise too
    u2, off2, ts2 = instant(x, "v")
    e2 = Event(id=8, timestamp=ts, duration=dur, data={})
    e2.timestamp = ts2
    obl.append(("setter-floors-and-utc", And(S.dt_us(e2.timestamp) == u2 - u2 % 1000, is_utc(e2.timestamp))))
    # JSON round trip and copy construction
    j = e.to_json_dict()
    obl.append(("json-types", isinstance(j["timestamp"], str) and isinstance(j["duration"], (int, float, S.SRatio, S.SInt)) and isinstance(j["data"], dict)))
    back = Event(**j)
    obl.append(("json-roundtrip-equal", And(S.dt_us(back.timestamp) == floor, S.td_us(back.duration) == want_d, back.data == e.data, back.id == 7, is_utc(back.timestamp))))
    cp = Event(**e)
    obl.append(("copy-construct-equal", And(S.dt_us(cp.timestamp) == floor, S.td_us(cp.duration) == want_d, cp.data == e.data, cp.id == 7)))
    obs = [S.dt_us(e.timestamp), S.td_us(e.duration)]
    return obl, obs


SECONDS = [0, 951782400, 1583020799, 4102444799]  # 1970-01-01, 2000-02-29, 2020-02-29T23:59:59, 2099-12-31T23:59:59
OFFSETS = [0, 330, -840, 840]
IDS = [None, 0, 7, "", "ev-1"]
_SCHEMA = []


def schema_ok(j):
    """the JSON form against the published schema: the real jsonschema whenever the timestamp text is
    concrete (natively, and under shadows on the whole-second path where isoformat() has no symbolic
    digits; a symbolic duration is replaced by a placeholder number); otherwise the three property
    types the schema constrains"""
    ts, du, da = j.get("timestamp"), j.get("duration"), j.get("data")
    if isinstance(ts, (sstr.SStr, sstr.SIsoStr)):
        return isinstance(ts, str) and isinstance(du, (int, float, S.SRatio, S.SInt)) and not isinstance(du, bool) and isinstance(da, dict)
    if isinstance(du, (S.SRatio, S.SInt)):
        j = dict(j)
        j["duration"] = 0.5
    import json
    import jsonschema
    from aw_core.schema import get_json_schema

    if not _SCHEMA:
        _SCHEMA.append(get_json_schema("event"))
    try:
        jsonschema.validate(json.loads(json.dumps(j)), _SCHEMA[0], format_checker=jsonschema.FormatChecker())
        return True
    except Exception:  # noqa
        return False


def h_json_text(x):
    """JSON form at character level: concrete second and offset (from a pool), symbolic microsecond,
    several ids; isoformat() is rendered character by character and parsed back"""
    sec = SECONDS[x.choice("sec", len(SECONDS))]
    off = OFFSETS[x.choice("off", len(OFFSETS))]
    eid = IDS[x.choice("id", len(IDS))]
    micro = x.zint("micro", 0, 999999)
    d = x.zint("d", 0, D_MAX_US)
    ts = x.dt_parts(sec, micro, off)
    e = Event(id=eid, timestamp=ts, duration=x.td_us(d), data={"k": [1, {"n": None}], "ü": "q\"'"})
    floor = sec * 1000000 + micro - micro % 1000
    j = e.to_json_dict()
    obl = [("json-validates-against-schema", schema_ok(j))]
    obl.append(("json-has-id-timestamp-duration-data", set(j) == {"id", "timestamp", "duration", "data"} and j["id"] is eid or j.get("id") == eid))
    try:
        back = Event(**j)
        ok = And(S.dt_us(back.timestamp) == floor, is_utc(back.timestamp), S.td_us(back.duration) == d, back.data == e.data, type(back.id) is type(eid) and back.id == eid)
    except Exception as ex:  # noqa
        ok = False
    obl.append(("json-text-roundtrip-equal-same-id", ok))
    try:
        cp = Event(**e)
        ok2 = And(S.dt_us(cp.timestamp) == floor, S.td_us(cp.duration) == d, cp.data == e.data, type(cp.id) is type(eid) and cp.id == eid)
    except Exception:  # noqa
        ok2 = False
    obl.append(("copy-construct-equal-same-id", ok2))
    return obl, [sec, off, repr(eid)]


ISO_OFFSETS = ["Z", "+00:00", "+05:30", "-03:30", "-00:30", "-13:59", "+14:00", "-14:00", "+0100", "-0930"]
ISO_FRACTIONS = ["", ".5", ".123456", ".999999", ".000001", ",25"]
ISO_DATES = ["2021-06-15T08:15:30", "1970-01-01 00:00:00", "2099-12-31T23:59:59", "2000-02-29T12:00:00"]


def iso_reference(date, frac, off):
    """independent reading of 'YYYY-MM-DD[T ]HH:MM:SS[.,f]<offset>' -> epoch microseconds"""
    import calendar

    y, mo, d = int(date[0:4]), int(date[5:7]), int(date[8:10])
    h, mi, se = int(date[11:13]), int(date[14:16]), int(date[17:19])
    secs = calendar.timegm((y, mo, d, h, mi, se, 0, 0, 0))
    us = int((frac[1:] + "000000")[:6]) if frac else 0
    if off == "Z":
        om = 0
    else:
        digits = off[1:].replace(":", "")
        om = (int(digits[0:2]) * 60 + int(digits[2:4] or 0)) * (-1 if off[0] == "-" else 1)
    return (secs - om * 60) * 1000000 + us


def h_iso_strings(x):
    """timestamps given as ISO-8601 text (every offset / fraction / date of a pool, chosen by forking):
    the event holds that instant floored to the millisecond, in UTC; symbolic duration"""
    date = ISO_DATES[x.choice("date", len(ISO_DATES))]
    frac = ISO_FRACTIONS[x.choice("frac", len(ISO_FRACTIONS))]
    off = ISO_OFFSETS[x.choice("off", len(ISO_OFFSETS))]
    d = x.zint("d", 0, D_MAX_US)
    text = date + frac + off
    want = iso_reference(date, frac, off)
    e = Event(id=1, timestamp=text, duration=x.td_us(d), data={"k": 1})
    obl = [("iso-string-instant-floored-to-ms", S.dt_us(e.timestamp) == want - want % 1000), ("iso-string-timestamp-is-utc", is_utc(e.timestamp)), ("duration-kept", S.td_us(e.duration) == d)]
    e2 = Event(id=2, timestamp=datetime(2020, 1, 1, tzinfo=timezone.utc), duration=x.td_us(d), data={})
    e2.timestamp = text
    obl.append(("iso-string-through-setter", S.dt_us(e2.timestamp) == want - want % 1000))
    j = e.to_json_dict()
    obl.append(("json-validates-against-schema", schema_ok(j)))
    back = Event(**j)
    obl.append(("json-roundtrip", And(S.dt_us(back.timestamp) == want - want % 1000, S.td_us(back.duration) == d, back.id == 1)))
    return obl, [text]


class FoldZone(tzinfo):
    """a zone with daylight saving time for the year 2021, PEP 495 aware: std / dst offsets in minutes, DST from
    `on` (standard wall time) to `off` (daylight wall time); southern zones have off < on"""

    def __init__(self, name, std, dst, on, off):
        self.name, self.std, self.dstoff, self.on, self.off = name, std, dst, on, off

    def _is_dst(self, dt):
        wall = dt.replace(tzinfo=None)
        shift = timedelta(minutes=self.dstoff - self.std)
        # spring forward: walls in [on, on+shift) do not exist; fold=0 keeps the offset before the transition
        # fall back: walls in [off-shift, off) happen twice; fold=0 is the first (daylight) occurrence
        if self.on < self.off:
            if wall < self.on or wall >= self.off:
                return False
            if wall < self.on + shift:
                return bool(dt.fold)
            if wall >= self.off - shift:
                return not dt.fold
            return True
        # southern hemisphere: daylight time at both ends of the year
        if self.off <= wall < self.on:
            return False
        if self.off - shift <= wall < self.off:
            return not dt.fold
        if self.on <= wall < self.on + shift:
            return bool(dt.fold)
        return True

    def utcoffset(self, dt):
        return timedelta(minutes=self.dstoff if self._is_dst(dt) else self.std)

    def dst(self, dt):
        return timedelta(minutes=self.dstoff - self.std) if self._is_dst(dt) else timedelta(0)

    def tzname(self, dt):
        return self.name


DST_ZONES = [
    ("berlin-like +01/+02", 60, 120, datetime(2021, 3, 28, 2), datetime(2021, 10, 31, 3)),
    ("new-york-like -05/-04", -300, -240, datetime(2021, 3, 14, 2), datetime(2021, 11, 7, 2)),
    ("lord-howe-like +10:30/+11 (half-hour shift, southern)", 630, 660, datetime(2021, 10, 3, 2), datetime(2021, 4, 4, 2)),
]
DST_MICROS = [0, 1, 999, 1000, 500500, 999999]


def h_dst_zones(x):
    """aware datetimes in zones with daylight saving time, at and around both transitions, both values of fold:
    the event holds wall - utcoffset(wall, fold), floored to the millisecond, in UTC"""
    zi = x.choice("zone", len(DST_ZONES))
    name, std, dstoff, on, off = DST_ZONES[zi]
    zone = FoldZone(name, std, dstoff, on, off)
    shift = timedelta(minutes=dstoff - std)
    walls = [off - shift - timedelta(hours=1), off - shift, off - shift / 2, off - timedelta(microseconds=1000), off, on - timedelta(seconds=1), on, on + shift / 2, on + shift]
    wall = walls[x.choice("wall", len(walls))]
    fold = x.choice("fold", 2)
    micro = DST_MICROS[x.choice("micro", len(DST_MICROS))]
    wall = wall.replace(microsecond=micro)
    d = x.zint("d", 0, D_MAX_US)
    ts = wall.replace(tzinfo=zone, fold=fold)
    # reference: integer arithmetic on the wall clock reading and the offset the zone reports for (wall, fold)
    off_min = dstoff if zone._is_dst(ts) else std
    wall_us = (wall - datetime(1970, 1, 1)) // timedelta(microseconds=1)
    want = wall_us - off_min * 60 * 10**6
    e = Event(id=1, timestamp=ts, duration=x.td_us(d), data={"k": 1})
    obl = [("dst-zone-instant-floored-to-ms", S.dt_us(e.timestamp) == want - want % 1000), ("dst-zone-timestamp-is-utc", is_utc(e.timestamp)), ("duration-kept", S.td_us(e.duration) == d)]
    e2 = Event(id=2, timestamp=datetime(2020, 1, 1, tzinfo=timezone.utc), duration=x.td_us(d), data={})
    e2.timestamp = ts
    obl.append(("dst-zone-through-setter", S.dt_us(e2.timestamp) == want - want % 1000))
    back = Event(**e.to_json_dict())
    obl.append(("json-roundtrip", And(S.dt_us(back.timestamp) == want - want % 1000, S.td_us(back.duration) == d, back.id == 1)))
    # the other reading of the same wall clock time, same zone object, same process: its own instant
    ts_o = wall.replace(tzinfo=zone, fold=1 - fold)
    want_o = wall_us - (dstoff if zone._is_dst(ts_o) else std) * 60 * 10**6
    e_o = Event(id=3, timestamp=ts_o, duration=x.td_us(d), data={})
    obl.append(("dst-zone-other-fold-has-its-own-instant", S.dt_us(e_o.timestamp) == want_o - want_o % 1000))
    e_again = Event(id=4, timestamp=ts, duration=x.td_us(d), data={})
    obl.append(("dst-zone-same-input-same-instant-again", S.dt_us(e_again.timestamp) == want - want % 1000))
    return obl, [name, str(wall), fold]


def h_bad_duration(x):
    u, off, ts = instant(x)
    obl = []
    for bad in ("12", None, [1], {"a": 1}):
        try:
            e = Event(timestamp=ts, duration=bad, data={})
            if bad is None:
                # None is not a number either
                obl.append(("non-number-duration-raises-TypeError-%r" % (bad,), False))
            else:
                obl.append(("non-number-duration-raises-TypeError-%r" % (bad,), False))
        except TypeError:
            obl.append(("non-number-duration-raises-TypeError-%r" % (bad,), True))
    return obl, []


# ----------------------------------------------------------------- FP lemmas
def h_ms_floor_ieee(x):
    """the real _timestamp_parse under IEEE rounding: int(us/1000)*1000 == us - us%1000 for all 10^6 values
    (any date: the seconds part is symbolic too)"""
    u = x.zint("u", 0, U_MAX)
    if not x.sym:
        r = M._timestamp_parse(S.mkdt(u, 0))
        return [("ieee-ms-floor", S.dt_us(r) == u - u % 1000)], [S.dt_us(r)]
    fp.declare_bounds("u", 0, U_MAX)
    fp.USE_MS_FLOOR_LEMMA = False
    try:
        with ieee():
            r = M._timestamp_parse(S.SDatetime(u, 0, False))
    finally:
        fp.USE_MS_FLOOR_LEMMA = True
    return [("ieee-ms-floor", S.dt_us(r) == u - u % 1000)], [S.dt_us(r)]


def h_float_duration_ieee(x, twin=False):
    """Event(duration=f) for an arbitrary real f in [0, 30 d] seconds (doubles are a subset):
    resulting microseconds within 1/2 + 2^-30 of f*10^6"""
    if not x.sym:
        num, den = x.values["f"]
        f = num / den
        e = Event(timestamp=datetime(2020, 1, 1, tzinfo=timezone.utc), duration=f, data={})
        fr = Fraction(f) * 10**6
        err = abs(Fraction(S.td_us(e.duration)) - fr)
        ok = err <= Fraction(1, 2) + Fraction(1, 2**30)
        return [("float-duration-nearest-microsecond" if not twin else "twin", ok if not twin else err <= Fraction(1, 4))], []
    f = z3.Real("f")
    x.names.append(("f", "real"))
    E.ENG.assume(z3.And(f >= 0, f <= D_MAX_US // 10**6))
    sf = fp.exact(f, 0, D_MAX_US // 10**6, Fraction(1, 2**1074))
    with ieee():
        e = Event(timestamp=datetime(2020, 1, 1, tzinfo=timezone.utc), duration=sf, data={})
    d = S.td_us(e.duration)
    err = z3.ToReal(d) - f * 10**6
    bound = fp.Q(Fraction(1, 2) + Fraction(1, 2**30)) if not twin else fp.Q(Fraction(1, 4))
    return [("float-duration-nearest-microsecond" if not twin else "twin", z3.And(err <= bound, -err <= bound))], []


def h_json_duration_ieee(x, nbinades=42, trunc_twin=False):
    """timedelta(seconds=d.total_seconds()) == d for every whole-microsecond d in [0, 30 d], by binade of d"""
    b = x.choice("binade", nbinades)
    lo, hi = (0, 1) if b == 0 else (2**b, min(2 ** (b + 1) - 1, D_MAX_US))
    d = x.zint("d", lo, hi)
    ts = datetime(2020, 1, 1, tzinfo=timezone.utc)
    if not x.sym:
        e = Event(id=1, timestamp=ts, duration=timedelta(microseconds=d), data={})
        back = Event(**e.to_json_dict())
        return [("json-duration-roundtrip-ieee", S.td_us(back.duration) == d)], [S.td_us(back.duration)]
    fp.declare_bounds("d", lo, hi)
    with ieee():
        e = Event(id=1, timestamp=ts, duration=S.STimedelta(d), data={})
        j = e.to_json_dict()
        if trunc_twin:
            # sensitivity twin: a truncating conversion instead of round-to-nearest must be refuted
            ip, frac = j["duration"].split()
            g = frac * 1000000
            back_us = ip * 1000000 + g.trunc()
            return [("twin-truncation", back_us == d)], [back_us]
        back = Event(**j)
    return [("json-duration-roundtrip-ieee", S.td_us(back.duration) == d)], [S.td_us(back.duration)]


def harnesses(tier):
    install()
    hs = []
    for k in ("timedelta", "int", "float-exact"):
        hs.append((Harness(PROP, "normalise-%s" % k, h_normalise, dict(durkind=k), "Event() with symbolic instant (us) + UTC offset; duration given as %s; setters; JSON / copy round trip (exact arithmetic)" % k), 300))
    hs.append((Harness(PROP, "json-text", h_json_text, {}, "JSON form rendered and parsed character by character: 4 concrete seconds x 4 offsets x 5 ids, symbolic microsecond and duration"), 600))
    hs.append((Harness(PROP, "iso-string-inputs", h_iso_strings, {}, "timestamps given as ISO-8601 strings: %d dates x %d fractions x %d offsets (Z, positive, negative with minutes, compact), symbolic duration" % (len(ISO_DATES), len(ISO_FRACTIONS), len(ISO_OFFSETS))), 600))
    hs.append((Harness(PROP, "dst-zone-inputs", h_dst_zones, {}, "aware datetimes in %d zones with daylight saving time (PEP 495 fold 0 and 1): 9 wall-clock readings at and around both transitions x %d microsecond values, symbolic duration" % (len(DST_ZONES), len(DST_MICROS))), 600))
    hs.append((Harness(PROP, "bad-duration", h_bad_duration, {}, "non-number durations raise TypeError"), 60))
    hs.append((Harness(PROP, "ieee-ms-floor", h_ms_floor_ieee, {}, "real _timestamp_parse with IEEE-rounded division: all 10^6 microsecond values at any date", cross_solver=2), 600))
    hs.append((Harness(PROP, "ieee-float-duration", h_float_duration_ieee, {}, "Event(duration=float seconds) under IEEE rounding"), 600))
    hs.append((Harness(PROP, "ieee-json-duration", h_json_duration_ieee, {}, "duration -> total_seconds() -> timedelta(seconds=) under IEEE rounding, every whole microsecond in [0, 30 d], per binade", split_depth=3, cross_solver=3), 900))
    return hs


def meta(chk, tier):
    chk.functions = C.source_files("aw_core/models.py", "aw_core/schemas/event.json")
    chk.functions.append(dict(functions=["aw_core.models._timestamp_parse", "Event.__init__", "Event.timestamp/duration/data/id setters", "Event.to_json_dict", "Event(**json)"]))
    chk.bounds = [
        "instants: every integer microsecond in [1970, ~2103]; UTC offset every whole minute in [-14 h, +14 h] (symbolic)",
        "durations: timedelta any integer us in [-30 d, 30 d]; int seconds in [-1e7, 1e7]; float seconds: every real (hence every double) in [0, 30 d]",
        "ISO-8601 string inputs: concrete pool of 4 dates x 6 fractions x 10 offsets (the real iso8601 regex runs on them), duration symbolic",
        "zones with daylight saving time: %d own tzinfo implementations (PEP 495), wall-clock readings at and around the repeated and the skipped hour, fold 0 and 1" % len(DST_ZONES),
        "IEEE lemmas: rounded-real encoding of double arithmetic (round to nearest, ties either way), one query per binade where needed",
    ]
    chk.stubs = ["aw_core.models.int -> sym_int", "aw_core.models.timedelta -> sym_timedelta (documented modf / one rounded product / round-to-nearest algorithm in IEEE mode)",
                 "iso8601.parse_date on the ISO text of a symbolic datetime returns that datetime (contract)", "datetime.isoformat() of a symbolic datetime is an opaque tagged string"]
    chk.assumptions = [
        "ISO-8601 text parsing (third-party regex) and JSON-schema validation (jsonschema) cannot be encoded; the JSON dict is checked for the schema's three required types directly",
        "float duration obligation: |microseconds - f*10^6| <= 1/2 + 2^-30 (one double rounding inside timedelta(seconds=f))",
        "IEEE semantics of /, *, int(), timedelta(seconds=float), total_seconds() as documented for CPython (modelled, validated by native replay of every path's model)",
    ]


def post(chk, tier):
    # sensitivity twins: must be refuted (sat), otherwise the IEEE encoding would be vacuous
    h = Harness(PROP, "ieee-json-duration-truncation-twin", h_json_duration_ieee, dict(trunc_twin=True), "sensitivity twin: truncation instead of rounding", split_depth=3)
    r = C.run_harness(h, budget_s=600, seed=chk.seed)
    ok = len(r.cex) > 0 and not r.errors
    chk.vacuity.append(dict(twin="json duration round trip with truncating conversion", refuted_on_paths=len(r.cex), ok=ok))
    if not ok:
        chk.harness_errors.append("sensitivity twin (truncation) was not refuted: %s" % (r.errors[:1],))
    h2 = Harness(PROP, "ieee-float-duration-tight-twin", h_float_duration_ieee, dict(twin=True), "sensitivity twin: error bound 1/4 must be refuted")
    r2 = C.run_harness(h2, budget_s=600, seed=chk.seed)
    ok2 = len(r2.cex) > 0 and not r2.errors
    chk.vacuity.append(dict(twin="float duration with error bound 1/4", refuted_on_paths=len(r2.cex), ok=ok2))
    if not ok2:
        chk.harness_errors.append("sensitivity twin (tight bound) was not refuted: %s" % (r2.errors[:1],))
    chk.lemmas.append(dict(fp_roundings=fp.STATS))


def main(tier, seed, args):
    return C.run_check(sys.modules[__name__], tier, seed, args)
