"""C02 — every backend behaves like one simple per-bucket event list under any history
(inductive step: arbitrary valid pre-state, one operation with symbolic arguments)."""
import sys

from symex import shadows as S
from symex.shadows import And, Or, Not, If, Sum, Implies
from . import common as C
from .common import Harness
from . import store as ST
from .store import Row, same_rows_as_sets, api_rows, show_rows, row_of_event

PROP = "C02"
OPS = ["insert_one", "insert_many_new", "insert_many_upsert", "insert_many_upsert_single", "insert_many_upsert_same_id_twice", "replace", "replace_last", "delete_live", "delete_missing", "delete_foreign_id", "reads"]


def setup(x, bk, n, nother=1):
    A = ST.sym_rows(x, "a", n)
    B = ST.sym_rows(x, "b", nother)
    ST.distinct(x, [r.id for r in A + B])
    be = ST.backend(bk)
    seq = x.zint("seq", 0, 2 * 10**6) if bk != "memory" else None
    ds = be.make(x, {"A": A, "B": B}, seq=seq)
    return be, ds, A, B


def frame(be, ds, B, A_expected, obl, what="after"):
    """post-state at table level: bucket A equals the model, bucket B untouched, no orphans"""
    tab = be.table_rows(ds)
    obl.append(("bucket-contents-equal-model", same_rows_as_sets(tab.get("A", []), A_expected)))
    obl.append(("other-bucket-untouched", same_rows_as_sets(tab.get("B", []), B)))
    obl.append(("no-orphan-rows", "<orphans>" not in tab))
    # the API view agrees with the table
    api = api_rows(ds, "A")
    obl.append(("listing-equals-model", same_rows_as_sets(api, A_expected)))
    obl.append(("listing-newest-first", ST.sorted_desc(api)))
    return tab


def h_op(x, bk, op, n):
    be, ds, A, B = setup(x, bk, n)
    try:
        b = ds["A"]
        obl = []
        obs = [op]
        new = ST.sym_rows(x, "n", 2, ids=False)
        if op == "insert_one":
            ev = ST.event_of_row(x, new[0])
            ret = b.insert(ev)
            rid = C.zv(ret.id) if ret is not None and ret.id is not None else None
            obl.append(("insert-returns-event-with-id", rid is not None))
            if rid is not None:
                obl.append(("new-id-not-a-live-id", And([rid != r.id for r in A])))
                frame(be, ds, B, A + [Row(rid, new[0].start, new[0].dur, new[0].tag)], obl)
                got = b.get_by_id(ret.id)
                obl.append(("lookup-by-new-id", got is not None and row_of_event(got).same(Row(rid, new[0].start, new[0].dur, new[0].tag))))
                obs.append(rid)
        elif op == "insert_many_new":
            b.insert([ST.event_of_row(x, new[0]), ST.event_of_row(x, new[1])])
            tab = be.table_rows(ds)
            rows = tab.get("A", [])
            obl.append(("two-rows-added", len(rows) == len(A) + 2))
            if len(rows) == len(A) + 2:
                # pre rows still there, the two new contents present under fresh distinct ids
                for r in A:
                    obl.append(("old-row-kept", Sum([If(r.same(q), 1, 0) for q in rows]) == 1))
                fresh = [q for q in rows]
                isnew = lambda q: And([q.id != r.id for r in A])  # noqa
                for k in (0, 1):
                    obl.append(("new-row-present-%d" % k, Or([And(isnew(q), q.same_content(new[k])) for q in rows])))
                obl.append(("exactly-two-fresh-ids", Sum([If(isnew(q), 1, 0) for q in rows]) == 2))
                obl.append(("ids-distinct", And([rows[i].id != rows[j].id for i in range(len(rows)) for j in range(i + 1, len(rows))])))
            obl.append(("other-bucket-untouched", same_rows_as_sets(tab.get("B", []), B)))
            obl.append(("count", b.get_eventcount() == len(A) + 2))
        elif op == "insert_many_upsert":
            if n < 1:
                x.assume(False)
            tgt = A[x.choice("target", n)]
            ev_up = C.mk_event(x, new[0].start, new[0].dur, {"tag": x.wrap(new[0].tag)}, id=x.wrap(tgt.id), aligned=False)
            b.insert([ev_up, ST.event_of_row(x, new[1])])
            tab = be.table_rows(ds)
            rows = tab.get("A", [])
            obl.append(("one-row-added", len(rows) == len(A) + 1))
            if len(rows) == len(A) + 1:
                exp_old = [Row(tgt.id, new[0].start, new[0].dur, new[0].tag) if r is tgt else r for r in A]
                for r in exp_old:
                    obl.append(("upserted-and-kept-rows", Sum([If(r.same(q), 1, 0) for q in rows]) == 1))
                isnew = lambda q: And([q.id != r.id for r in A])  # noqa
                obl.append(("new-row-present", Or([And(isnew(q), q.same_content(new[1])) for q in rows])))
            obl.append(("other-bucket-untouched", same_rows_as_sets(tab.get("B", []), B)))
        elif op == "insert_many_upsert_single":
            # a bulk insert of exactly one event that carries a live id is an upsert too
            tgt = A[x.choice("target", n)]
            b.insert([C.mk_event(x, new[0].start, new[0].dur, {"tag": x.wrap(new[0].tag)}, id=x.wrap(tgt.id), aligned=False)])
            frame(be, ds, B, [Row(tgt.id, new[0].start, new[0].dur, new[0].tag) if r is tgt else r for r in A], obl)
        elif op == "insert_many_upsert_same_id_twice":
            # one batch carries two successive versions of the same live event: the later one is what is stored
            tgt = A[x.choice("target", n)]
            b.insert([C.mk_event(x, new[0].start, new[0].dur, {"tag": x.wrap(new[0].tag)}, id=x.wrap(tgt.id), aligned=False),
                      C.mk_event(x, new[1].start, new[1].dur, {"tag": x.wrap(new[1].tag)}, id=x.wrap(tgt.id), aligned=False)])
            frame(be, ds, B, [Row(tgt.id, new[1].start, new[1].dur, new[1].tag) if r is tgt else r for r in A], obl)
        elif op == "replace":
            tgt = A[x.choice("target", n)]
            b.replace(x.wrap(tgt.id), ST.event_of_row(x, new[0]))
            frame(be, ds, B, [Row(tgt.id, new[0].start, new[0].dur, new[0].tag) if r is tgt else r for r in A], obl)
            got = b.get_by_id(x.wrap(tgt.id))
            obl.append(("lookup-after-replace", got is not None and row_of_event(got).same(Row(tgt.id, new[0].start, new[0].dur, new[0].tag))))
        elif op == "replace_last":
            last = b.get(limit=1)
            obl.append(("limit-1-read-returns-one", len(last) == 1))
            if len(last) == 1:
                lr = row_of_event(last[0])
                obl.append(("limit-1-read-is-a-newest-event", And([lr.start >= r.start for r in A] + [Or([lr.same(r) for r in A])])))
                b.replace_last(ST.event_of_row(x, new[0]))
                exp = [If(lr.id == r.id, 1, 0) for r in A]
                tab = be.table_rows(ds)
                rows = tab.get("A", [])
                obl.append(("same-number-of-rows", len(rows) == len(A)))
                if len(rows) == len(A):
                    for r in A:
                        # the row the limit-1 read returned now has the new content, same id; every other row identical
                        want_new = Row(r.id, new[0].start, new[0].dur, new[0].tag)
                        obl.append(("replace-last-rewrites-exactly-the-row-read", Sum([If(If(lr.id == r.id, want_new.same(q), r.same(q)), 1, 0) for q in rows]) == 1))
                obl.append(("other-bucket-untouched", same_rows_as_sets(tab.get("B", []), B)))
                obl.append(("no-orphan-rows", "<orphans>" not in tab))
                obs.append(lr.id)
        elif op == "delete_live":
            tgt = A[x.choice("target", n)]
            ret = b.delete(x.wrap(tgt.id))
            obl.append(("delete-reports-success", bool(ret)))
            frame(be, ds, B, [r for r in A if r is not tgt], obl)
            obl.append(("lookup-after-delete-none", b.get_by_id(x.wrap(tgt.id)) is None))
        elif op == "delete_missing":
            mid = x.zint("missing", 1, 3 * 10**6)
            for r in A + B:
                x.assume(mid != r.id)
            ret = b.delete(x.wrap(mid))
            obl.append(("delete-of-unknown-id-reports-nothing", not bool(ret)))
            frame(be, ds, B, A, obl)
        elif op == "delete_foreign_id":
            # the id of an event of another bucket never existed in this bucket: nothing may happen
            ret = b.delete(x.wrap(B[0].id))
            if bk != "memory":
                obl.append(("delete-of-foreign-id-reports-nothing", not bool(ret)))
                frame(be, ds, B, A, obl)
            else:
                x.assume(And([B[0].id != r.id for r in A]))
                obl.append(("delete-of-foreign-id-reports-nothing", not bool(ret)))
                frame(be, ds, B, A, obl)
        elif op == "reads":
            frame(be, ds, B, A, obl)
            one = b.get(limit=1)
            obl.append(("limit-1-returns-min(1,n)", len(one) == min(1, n)))
            if one:
                lr = row_of_event(one[0])
                obl.append(("limit-1-is-a-newest-event", And([lr.start >= r.start for r in A] + [Or([lr.same(r) for r in A])])))
            obl.append(("limit-0-empty", b.get(limit=0) == []))
            obl.append(("count", b.get_eventcount() == n))
            for r in A:
                got = b.get_by_id(x.wrap(r.id))
                obl.append(("lookup-by-id", got is not None and row_of_event(got).same(r)))
            mid = x.zint("missing", 1, 3 * 10**6)
            for r in A:
                x.assume(mid != r.id)
            # an id of another bucket / unknown id is not found in this bucket
            obl.append(("lookup-unknown-id-none", b.get_by_id(x.wrap(mid)) is None))
            frame(be, ds, B, A, obl)
        else:
            raise ValueError(op)
        return obl, obs
    finally:
        be.close()


def same_id(a, b):
    """syntactic identity of two ids (concrete ints, or the same solver term)"""
    a, b = C.zv(a), C.zv(b)
    if isinstance(a, int) and isinstance(b, int):
        return a == b
    if hasattr(a, "eq") and hasattr(b, "eq"):
        return a.eq(b)
    return False


HOPS = ["insert", "bulk2", "replace", "replace_last", "delete", "upsert1"]


def h_history(x, bk, L, pre=0, hops=None, fixed=None):
    """whole histories from the empty store: L operations chosen by forking, event contents symbolic;
    after every step the bucket equals the reference list (cross-check that the inductive pre-states
    are not too strong, and of id allocation across deletes)"""
    be = ST.backend(bk)
    P = ST.sym_rows(x, "p", pre)
    ST.distinct(x, [r.id for r in P])
    ds = be.make(x, {"A": P, "B": []})
    try:
        b = ds["A"]
        model = list(P)  # list of Row, ids as assigned by the store
        ever = []  # every id ever handed out together with the liveness at that time
        obl = []
        trace = []
        for step in range(L):
            live = len(model)
            ops = [o for o in (hops or HOPS) if live or o in ("insert", "bulk2", "bulk1")]
            op = fixed[step] if fixed else ops[x.choice("op%d" % step, len(ops))]
            new = ST.sym_rows(x, "s%d" % step, 2, ids=False)
            if op == "insert":
                ret = b.insert(ST.event_of_row(x, new[0]))
                rid = C.zv(ret.id)
                obl.append(("fresh-id-not-live-step%d" % step, And([rid != r.id for r in model])))
                model.append(Row(rid, new[0].start, new[0].dur, new[0].tag))
            elif op == "bulk2":
                b.insert([ST.event_of_row(x, new[0]), ST.event_of_row(x, new[1])])
                rows = be.table_rows(ds).get("A", [])
                fresh = [q for q in rows if not any(same_id(q.id, r.id) for r in model)]
                obl.append(("bulk-adds-two-rows-step%d" % step, len(rows) == live + 2 and len(fresh) == 2))
                if len(fresh) == 2:
                    obl.append(("bulk-contents-step%d" % step, Or(And(fresh[0].same_content(new[0]), fresh[1].same_content(new[1])), And(fresh[0].same_content(new[1]), fresh[1].same_content(new[0])))))
                    model += [Row(fresh[0].id, fresh[0].start, fresh[0].dur, fresh[0].tag), Row(fresh[1].id, fresh[1].start, fresh[1].dur, fresh[1].tag)]
            elif op == "bulk1":
                # a list of one event without id: the bulk code path, one new row
                b.insert([ST.event_of_row(x, new[0])])
                rows = be.table_rows(ds).get("A", [])
                fresh = [q for q in rows if not any(same_id(q.id, r.id) for r in model)]
                obl.append(("bulk-adds-one-row-step%d" % step, len(rows) == live + 1 and len(fresh) == 1 and fresh[0].same_content(new[0])))
                if len(fresh) == 1:
                    model.append(Row(fresh[0].id, fresh[0].start, fresh[0].dur, fresh[0].tag))
            elif op == "replace":
                tgt = model[x.choice("t%d" % step, live)]
                b.replace(x.wrap(tgt.id), ST.event_of_row(x, new[0]))
                model[model.index(tgt)] = Row(tgt.id, new[0].start, new[0].dur, new[0].tag)
            elif op == "upsert1":
                tgt = model[x.choice("t%d" % step, live)]
                b.insert([C.mk_event(x, new[0].start, new[0].dur, {"tag": x.wrap(new[0].tag)}, id=x.wrap(tgt.id), aligned=False)])
                model[model.index(tgt)] = Row(tgt.id, new[0].start, new[0].dur, new[0].tag)
            elif op == "read1":
                # a limit-1 read on its own (whatever the Bucket / store remembers from it must stay right)
                last = b.get(limit=1)
                lr = row_of_event(last[0]) if last else None
                obl.append(("limit-1-read-is-a-live-newest-event-step%d" % step, And(Or([r.same(lr) for r in model]), And([lr.start >= r.start for r in model])) if lr is not None else False))
            elif op == "replace_last":
                last = b.get(limit=1)
                lr = row_of_event(last[0]) if last else None
                obl.append(("limit-1-read-nonempty-step%d" % step, lr is not None))
                if lr is not None:
                    b.replace_last(ST.event_of_row(x, new[0]))
                    hit = [r for r in model if same_id(r.id, lr.id)]
                    obl.append(("limit-1-read-is-a-live-newest-event-step%d" % step, len(hit) == 1 and And([lr.start >= r.start for r in model])))
                    if len(hit) == 1:
                        model[model.index(hit[0])] = Row(hit[0].id, new[0].start, new[0].dur, new[0].tag)
            elif op == "delete":
                tgt = model[x.choice("t%d" % step, live)]
                ret = b.delete(x.wrap(tgt.id))
                obl.append(("delete-reports-success-step%d" % step, bool(ret)))
                model.remove(tgt)
            trace.append(op)
            rows = be.table_rows(ds).get("A", [])
            obl.append(("bucket-equals-model-step%d" % step, same_rows_as_sets(rows, model)))
            obl.append(("listing-equals-model-step%d" % step, same_rows_as_sets(api_rows(ds, "A"), model)))
            obl.append(("count-step%d" % step, b.get_eventcount() == len(model)))
        obl.append(("other-bucket-stays-empty", be.table_rows(ds).get("B", []) == [] and "<orphans>" not in be.table_rows(ds)))
        return obl, trace
    finally:
        be.close()


def harnesses(tier):
    ST.install_common()
    ST.install_sqlite()
    hs = []
    ST.install_peewee()
    bks = ["memory", "sqlite", "peewee"]
    sizes = [1, 2] if tier == "quick" else [1, 2, 3]
    for bk in bks:
        for op in OPS:
            for n in sizes:
                if n == 3 and op in ("insert_many_upsert",):
                    pass
                hs.append((Harness(PROP, "%s-%s-n%d" % (bk, op, n), h_op, dict(bk=bk, op=op, n=n), "%s backend: %s from an arbitrary valid pre-state of %d+1 events in two buckets" % (bk, op, n), split_depth=6), 1800))
    for bk in bks:
        if bk == "peewee" and tier == "quick":
            continue  # 15 000 paths: thorough tier only
        for L in ([2] if tier == "quick" else ([2, 3] if bk == "memory" else [2])):  # (sqlite L3: 58 min alone — replaced by the from-1 / fixed-sequence histories below)
            hs.append((Harness(PROP, "%s-history-L%d" % (bk, L), h_history, dict(bk=bk, L=L), "%s backend: every history of %d operations from the empty store (operation and target chosen by forking, contents symbolic)" % (bk, L), split_depth=8), 3600))
    # state kept inside the store object between calls (caches, counters): sequences of the writes that take
    # no target id, on one store object, from a loaded bucket
    for bk in bks:
        for L in ([3, 4] if (tier != "quick" and bk == "memory") else [3]):  # (L=4 on sqlite / peewee: beyond half an hour each — not claimed)
            hops = ["bulk1", "replace_last"] if (bk == "peewee" and tier == "quick") else ["insert", "bulk1", "replace_last"]
            hs.append((Harness(PROP, "%s-history-L%d-from-1-event-untargeted-writes" % (bk, L), h_history, dict(bk=bk, L=L, pre=1, hops=hops),
                               "%s backend: every sequence of %d operations out of %s (bulk1 = a list of one new event) on one store object, from a bucket already holding one event" % (bk, L, " / ".join(hops)), split_depth=8), 3600))
    for bk in bks:
        for seq in (["read1", "bulk2", "replace_last"], ["replace_last", "bulk2", "replace_last"], ["replace_last", "bulk2", "insert", "replace_last"], ["insert", "bulk2", "replace_last"]):
            if tier == "quick" and seq not in (["replace_last", "bulk2", "replace_last"], ["read1", "bulk2", "replace_last"]):
                continue
            if bk == "peewee" and seq not in (["replace_last", "bulk2", "replace_last"], ["read1", "bulk2", "replace_last"]):
                continue  # (8 minutes each on peewee)
            hs.append((Harness(PROP, "%s-sequence-%s-from-1-event" % (bk, "-".join(seq)), h_history, dict(bk=bk, L=len(seq), pre=1, fixed=seq),
                               "%s backend: the sequence %s (every replace_last preceded by its limit-1 read) on one store object and one Bucket object, from a bucket holding one event; contents symbolic" % (bk, " / ".join(seq)), split_depth=8), 1800))
    return hs


def meta(chk, tier):
    chk.functions = C.source_files("aw_datastore/datastore.py", "aw_datastore/storages/memory.py", "aw_datastore/storages/sqlite.py", "aw_datastore/storages/abstract.py", "aw_core/models.py")
    chk.functions.append(dict(functions=["Bucket.insert/get/get_by_id/get_eventcount/delete/replace/replace_last", "MemoryStorage.*", "SqliteStorage.* (SQL text parsed and executed by symex.sqlstub)"]))
    chk.bounds = [
        "pre-state: bucket A with %s events + bucket B with 1 event; ids symbolic and pairwise distinct in [1, 1e6]; AUTOINCREMENT high-water mark symbolic >= every live id" % ("1..2" if tier == "quick" else "1..3"),
        "instants multiples of 1 ms in [1970, ~2103] (ties allowed), durations integer microseconds in [0, 24 h] (zero-length allowed), data {'tag': t} with t in 0..2",
        "one operation per run (inductive step over an arbitrary valid state); operations: " + ", ".join(OPS),
        "whole histories from the empty store: L = 2 (quick), 3 (thorough, memory) operations out of insert, bulk insert of 2, replace, one-element upsert, replace_last, delete",
        "sequences of 3 (thorough: 4 on the memory backend) untargeted writes (insert, bulk insert of a one-element list, replace_last; peewee in the quick tier without the plain insert) on one store object from a bucket holding one symbolic event",
        "fixed sequences on one store object and one Bucket object from a bucket holding one event: replace_last or a bare limit-1 read / bulk insert of 2 / replace_last (quick), also with an insert before or in between (thorough)",
        "backends: memory, sqlite, peewee",
    ]
    chk.stubs = ["sqlite3 -> symex.sqlstub (SQL parsed from the text the source emits; validated against the real library by tools/dualrun.py: 0 divergences on the repository's own tests)",
                 "json -> opaque JsonText for data holding symbolic tags", "float microsecond arithmetic in exact rationals (IEEE fidelity is C01's lemma)", "sqlite.datetime -> fromtimestamp on exact ratios"]
    chk.assumptions = ["every store harness (here and in the checks that say 'as C02') also carries the obligation that a bystander — a second store object of the same kind created first, same bucket ids, one event each — comes out unchanged (memory, sqlite)", "representation invariant: ids distinct, sequence >= ids, every event row owned by an existing bucket", "SQLite tie order for ORDER BY ... DESC as observed (backward index scan); violations are replayed on the real library"]


def main(tier, seed, args):
    return C.run_check(sys.modules[__name__], tier, seed, args)
