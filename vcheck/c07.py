"""C07 — heartbeat ingestion through the store equals heartbeat_reduce of the stream."""
import sys
from copy import deepcopy

from symex import shadows as S
from symex.shadows import And, Or, Not, If, Sum, Implies
from . import common as C
from .common import Harness
from . import store as ST
from . import c08
from .store import Row, same_rows_as_sets, row_of_event

import aw_transform.heartbeats  # noqa

HB = sys.modules["aw_transform.heartbeats"]

PROP = "C07"
P_MAX_US = 10**12


def ingest(bucket, hb, pulsetime):
    """the standard loop (as aw-server does it): read newest, try to merge, replace-last or insert"""
    last = bucket.get(limit=1)
    if last:
        merged = HB.heartbeat_merge(last[0], hb, pulsetime)
        if merged is not None:
            bucket.replace_last(merged)
            return "merged"
    bucket.insert(hb)
    return "inserted"


def mergeable(a, b, p):
    return And(a.tag == b.tag, a.start <= b.start, b.start <= a.start + a.dur + p, a.dur >= 0)


def reduced_rows(x, pfx, n, p):
    """a bucket state the loop can have produced: starts strictly increasing, ends non-decreasing,
    no two consecutive events mergeable"""
    rows = ST.sym_rows(x, pfx, n, dmax=ST.D_MAX_US)
    for i in range(n - 1):
        x.assume(rows[i].start < rows[i + 1].start)
        x.assume(rows[i].end <= rows[i + 1].end)
        x.assume(Not(mergeable(rows[i], rows[i + 1], p)))
    return rows


def events_equal_rows(evs, rows):
    if len(evs) != len(rows):
        return False
    return And([And(S.dt_us(e.timestamp) == r.start, S.td_us(e.duration) == r.dur, C.zv(e.data.get("tag")) == r.tag) for e, r in zip(evs, rows)])


def h_step(x, bk, n):
    p = x.zint("p", 0, P_MAX_US)
    R = reduced_rows(x, "r", n, p)
    B = ST.sym_rows(x, "b", 2)
    ST.distinct(x, [r.id for r in R + B])
    hb = ST.sym_rows(x, "h", 1, ids=False)[0]
    if n:
        x.assume(hb.start > R[-1].start)
        x.assume(hb.end >= R[-1].end)
    be = ST.backend(bk)
    ds = be.make(x, {"A": R, "B": B})
    try:
        pulse = x.seconds_us(p)
        what = ingest(ds["A"], ST.event_of_row(x, hb), pulse)
        want = HB.heartbeat_reduce([ST.event_of_row(x, r) for r in R] + [ST.event_of_row(x, hb)], pulse)
        got = list(reversed(ds["A"].get(-1)))  # oldest first
        obl = [("bucket-equals-heartbeat_reduce-of-stream", len(got) == len(want) and events_equal_rows(got, [row_of_event(w) for w in want]))]
        tab = be.table_rows(ds)
        rows = tab.get("A", [])
        # earlier events untouched (all but the newest pre-existing one must still be there, same id)
        for r in R[:-1]:
            obl.append(("earlier-event-untouched", Sum([If(r.same(q), 1, 0) for q in rows]) == 1))
        if n:
            # the newest pre-existing event keeps its id and start
            obl.append(("newest-event-keeps-id-and-start", Sum([If(And(q.id == R[-1].id, q.start == R[-1].start, q.tag == R[-1].tag), 1, 0) for q in rows]) == 1))
        obl.append(("other-bucket-untouched", same_rows_as_sets(tab.get("B", []), B)))
        obl.append(("no-orphan-rows", "<orphans>" not in tab))
        return obl, [what, len(got)]
    finally:
        be.close()


def h_stream(x, bk, k, recreated=False, dmax=ST.D_MAX_US):
    p = x.zint("p", 0, P_MAX_US)
    hbs = ST.sym_rows(x, "h", k, ids=False, dmax=dmax)
    for i in range(k - 1):
        x.assume(hbs[i].start < hbs[i + 1].start)
        x.assume(hbs[i].end <= hbs[i + 1].end)
    B = ST.sym_rows(x, "b", 1)
    be = ST.backend(bk)
    ds = be.make(x, {"A": [], "B": B})
    try:
        if recreated:
            # the bucket id is reused: populate, delete the bucket, create it again on the same store object
            old = ST.sym_rows(x, "o", 1, ids=False)[0]
            ds["A"].insert(ST.event_of_row(x, old))
            ds.delete_bucket("A")
            ds.create_bucket("A", "type-A", "client", "host-A", created=ST.T0, name="name-A", data={"d": "A"})
        pulse = x.seconds_us(p)
        trace = [ingest(ds["A"], ST.event_of_row(x, h), pulse) for h in hbs]
        want = HB.heartbeat_reduce([ST.event_of_row(x, h) for h in hbs], pulse)
        got = list(reversed(ds["A"].get(-1)))
        obl = [("bucket-equals-heartbeat_reduce-of-stream", len(got) == len(want) and events_equal_rows(got, [row_of_event(w) for w in want]))]
        tab = be.table_rows(ds)
        obl.append(("other-bucket-untouched", same_rows_as_sets(tab.get("B", []), B)))
        ids = [q.id for q in tab.get("A", [])]
        obl.append(("ids-distinct", And([ids[i] != ids[j] for i in range(len(ids)) for j in range(i + 1, len(ids))])))
        return obl, [trace, len(got)]
    finally:
        be.close()


def harnesses(tier):
    ST.install_common()
    ST.install_sqlite()
    c08.install()
    hs = []
    ST.install_peewee()
    for bk in ["memory", "sqlite", "peewee"]:
        for n in ([0, 1, 2] if tier == "quick" else [0, 1, 2, 3]):
            hs.append((Harness(PROP, "%s-step-r%d" % (bk, n), h_step, dict(bk=bk, n=n), "%s: one heartbeat into a bucket holding a reduced stream of %d events (+2 events in another bucket)" % (bk, n), split_depth=6), 1800))
        hs.append((Harness(PROP, "%s-stream-k2-recreated-bucket" % bk, h_stream, dict(bk=bk, k=2, recreated=True), "%s: 2 heartbeats into a bucket whose id was deleted and re-created on the same store object" % bk, split_depth=7), 1800))
        hs.append((Harness(PROP, "%s-stream-k2-long-durations" % bk, h_stream, dict(bk=bk, k=2, dmax=30 * ST.D_MAX_US), "%s: 2 heartbeats whose own durations range up to 30 days" % bk, split_depth=7), 1800))
        for k in ([2, 3] if tier == "quick" else [2, 3, 4]):
            hs.append((Harness(PROP, "%s-stream-k%d" % (bk, k), h_stream, dict(bk=bk, k=k), "%s: stream of %d heartbeats from the empty bucket" % (bk, k), split_depth=7), 3600))
    return hs


def meta(chk, tier):
    chk.functions = C.source_files("aw_datastore/datastore.py", "aw_datastore/storages/memory.py", "aw_datastore/storages/sqlite.py", "aw_transform/heartbeats.py")
    chk.functions.append(dict(functions=["Bucket.get(limit=1) / replace_last / insert", "heartbeat_merge", "heartbeat_reduce", "storage get_events / replace_last / insert_one"]))
    chk.bounds = [
        "inductive step: bucket holds a reduced stream of <=%d events (starts strictly increasing, ends non-decreasing, consecutive events not mergeable), the heartbeat starts later and ends no earlier; other bucket with 2 arbitrary events; ids symbolic" % (2 if tier == "quick" else 3),
        "whole streams of <=%d heartbeats from the empty bucket (strictly increasing starts, non-decreasing ends)" % (3 if tier == "quick" else 4),
        "instants ms-aligned, durations any us in [0, 24 h] (zero-length and tied ends included), data tag in 0..2, pulsetime any us in [0, 1e12]",
    ]
    chk.stubs = ["as C02 and C08"]
    chk.bounds.append("streams of 2 heartbeats with durations up to 30 days")
    chk.assumptions = []


def main(tier, seed, args):
    return C.run_check(sys.modules[__name__], tier, seed, args)
