"""C17 — any query text either parses or is rejected with a query error, and terminates."""
import linecache
import os
import signal
import sys
import traceback
from datetime import datetime, timedelta, timezone

import z3  # noqa

from symex import shadows as S
from symex import sstr
from symex.engine import Unsupported, Abort
from . import common as C
from .common import Harness

import aw_core.models as M
import aw_query.query2 as Q2
import aw_query.functions as QF
from aw_query.exceptions import QueryException
from aw_datastore import Datastore
from aw_datastore.storages import MemoryStorage
from aw_core.models import Event

PROP = "C17"
REPO = C.REPO
T0 = datetime(2020, 1, 1, tzinfo=timezone.utc)


NATIVE_LIMIT = sys.getrecursionlimit()


class PathTimeout(BaseException):
    pass


def sym_isinstance(obj, t):
    if isinstance(obj, S.SInt):
        if t is int or (isinstance(t, tuple) and int in t):
            return True
        return False
    return isinstance(obj, t)


def install():
    C.stub(M, "int", S.sym_int)
    C.stub(Q2, "int", S.sym_int)
    C.stub(QF, "isinstance", sym_isinstance)


def make_datastore():
    ds = Datastore(MemoryStorage, testing=True)
    ds.create_bucket("b1", "test", "client", "host1", created=T0)
    ds.create_bucket("b2", "test", "client", "host2", created=T0)
    ds["b1"].insert([Event(timestamp=T0 + timedelta(seconds=10 * i), duration=timedelta(seconds=5), data={"k": "v%d" % (i % 2), "url": "http://a.b/c", "title": "t"}) for i in range(3)])
    ds["b2"].insert([Event(timestamp=T0 + timedelta(seconds=7 * i), duration=timedelta(seconds=3), data={"k": "v0"}) for i in range(2)])
    return ds


def candidates(extra=()):
    names = set(QF.functions.keys()) | set(Q2.create_namespace().keys()) | {"NAME", "STARTTIME", "ENDTIME", "RETURN", "b1", "b2"} | set(extra)
    sstr.CANDIDATES.clear()
    sstr.register_candidates(names)


def identifiers(text):
    out, cur = set(), ""
    for ch in text + " ":
        if ch.isalnum() or ch == "_":
            cur += ch
        else:
            if cur:
                out.add(cur)
            cur = ""
    return out


def run_query(text, limit_s=30, concrete_limit=False, prepare=None):
    """returns (outcome, detail): outcome 'ok' | 'escape' | 'outside' | 'timeout'"""
    ds = make_datastore()
    if prepare is not None:
        prepare(ds)

    def on_alarm(sig, frm):
        raise PathTimeout()

    old = signal.signal(signal.SIGALRM, on_alarm)
    signal.setitimer(signal.ITIMER_REAL, limit_s)
    # under shadows every frame of the code under test carries a few shadow frames: give them headroom so
    # that the interpreter's recursion limit is reached (if at all) by the real code's own depth only in
    # the native run, which is the one that decides a replay
    old_limit = sys.getrecursionlimit()
    if isinstance(text, sstr.SStr):
        sys.setrecursionlimit(60000)
    elif concrete_limit:
        sys.setrecursionlimit(NATIVE_LIMIT)
    try:
        try:
            Q2.query("name", text, T0, T0 + timedelta(hours=1), ds)
            return "ok", "value"
        except QueryException as e:
            return "ok", type(e).__name__
        except PathTimeout:
            return "timeout", "query did not finish within %ds" % limit_s
        except Exception as e:
            tb = traceback.extract_tb(e.__traceback__)
            # innermost frame that belongs to the repository (shadow frames stand for builtins such as int())
            inner = None
            for fr in reversed(tb):
                if fr.filename.startswith(REPO + os.sep):
                    inner = fr
                    break
            if inner is None:
                raise Unsupported("exception outside the repository code: %r\n%s" % (e, "".join(traceback.format_tb(e.__traceback__))))
            fn = inner.filename
            rel = os.path.relpath(fn, REPO) if fn.startswith(REPO) else fn
            site = "%s/%s/%s/%s" % (type(e).__name__, rel, inner.name, (inner.line or "").strip())
            in_builtin_body = rel == os.path.join("aw_query", "functions.py") and inner.name.startswith("q2_")
            if rel.startswith("aw_query") and not in_builtin_body:
                return "escape", site
            # raised while a built-in (q2_* body, transform, datastore) was already running on
            # arguments that passed name / arity / top-level type resolution: outside the property
            return "outside", site
    finally:
        sys.setrecursionlimit(old_limit)
        signal.setitimer(signal.ITIMER_REAL, 0)
        signal.signal(signal.SIGALRM, old)


def verdict(text):
    outcome, detail = run_query(text)
    if outcome == "escape":
        return [("no-escape: " + detail, False)], ["escape", detail]
    if outcome == "timeout":
        return [("terminates", False)], ["timeout"]
    return [("no-escape", True), ("terminates", True)], [outcome if outcome == "ok" else "outside"]


EDITS = ["none", "delete", "duplicate", "swap"]


def h_mutate(x, seed, kinds=("sub", "ins"), edit="none", nsym=1):
    """seed program with `nsym` positions replaced by / preceded by an arbitrary Unicode character,
    optionally after a concrete delete / duplicate / swap edit at a symbolic position"""
    candidates(identifiers(seed))
    chars = list(seed)
    if edit != "none":
        p = x.choice("editpos", len(chars) - (1 if edit == "swap" else 0))
        if edit == "delete":
            del chars[p]
        elif edit == "duplicate":
            chars.insert(p, chars[p])
        elif edit == "swap":
            chars[p], chars[p + 1] = chars[p + 1], chars[p]
    for s in range(nsym):
        kind = kinds[x.choice("kind%d" % s, len(kinds))] if len(kinds) > 1 else kinds[0]
        if kind == "sub":
            pos = x.choice("pos%d" % s, len(chars))
            c = sstr.fresh_char(x, "c%d" % s)
            chars[pos] = c
        else:
            pos = x.choice("pos%d" % s, len(chars) + 1)
            c = sstr.fresh_char(x, "c%d" % s)
            chars.insert(pos, c)
    text = sstr.mk(chars)
    return verdict(text)


ARGS = ["1", '"b1"', "'zz'", "'host2'", "[]", '["zz", 1]', "{}", "{'a': 1}", "x"]
ARG_TYPES = ["int", "str", "str", "str", "list", "list", "dict", "dict", "list"]
BUCKET_HOSTS = {"b1": "host1", "b2": "host2"}  # as make_datastore() creates them
# top-level parameter types of the built-ins as documented (own table; None = untyped / optional)
PARAM_TYPES = {
    "filter_keyvals": ["list", "str", "list"], "exclude_keyvals": ["list", "str", "list"], "filter_keyvals_regex": ["list", "str", "str"],
    "filter_period_intersect": ["list", "list"], "period_union": ["list", "list"], "limit_events": ["list", "int"],
    "merge_events_by_keys": ["list", "list"], "chunk_events_by_key": ["list", "str"], "sort_by_timestamp": ["list"], "sort_by_duration": ["list"],
    "sum_durations": ["list"], "concat": ["list", "list"], "union_no_overlap": ["list", "list"], "flood": ["list"], "split_url_events": ["list"],
    "simplify_window_titles": ["list", "str"], "categorize": ["list", "list"], "tag": ["list", "list"], "query_bucket": ["str"],
    "query_bucket_eventcount": ["str"], "nop": [],
}
OPTIONAL_EXTRA = {"find_bucket": (["str"], 1)}  # required types, number of optional trailing parameters


def h_misuse(x, maxargs=3):
    """every registered built-in called with 0..maxargs arguments of assorted types (existing and
    unknown bucket names, ints, lists, dicts, an event list variable): value or query error"""
    names = sorted(QF.functions.keys())
    candidates()
    f = names[x.choice("fn", len(names))]
    k = x.choice("nargs", maxargs + 1)
    args = [ARGS[x.choice("arg%d" % i, len(ARGS))] for i in range(k)]
    text = 'x = query_bucket("b1"); RETURN = %s(%s);' % (f, ", ".join(args))
    obl, obs = verdict(text)
    req, nopt = (PARAM_TYPES[f], 0) if f in PARAM_TYPES else OPTIONAL_EXTRA.get(f, (None, 0))
    if req is not None:
        types = [ARG_TYPES[ARGS.index(a)] for a in args]
        arity_ok = len(req) <= k <= len(req) + nopt
        mismatch = any(t != r for t, r in zip(types, req))
        outcome, detail = run_query(text)
        if arity_ok and mismatch:
            obl.append(("wrong-top-level-argument-type-is-a-function-error/%s" % f, outcome == "ok" and detail == "QueryFunctionException"))
        if not arity_ok and not mismatch:
            obl.append(("wrong-argument-count-is-an-interpret-error/%s" % f, outcome == "ok" and detail == "QueryInterpretException"))
    if f in ("query_bucket", "query_bucket_eventcount", "find_bucket") and req is not None and arity_ok and all(t == "str" for t in types):
        # well-typed bucket lookups: a value if the bucket exists (own reference over the two buckets of
        # make_datastore), a function error if it does not — nothing else
        vals = [a.strip("'\"") for a in args]
        if f == "find_bucket":
            host = vals[1] if len(vals) > 1 else None
            known = any(vals[0] in b and (not host or BUCKET_HOSTS[b] == host) for b in BUCKET_HOSTS)
        else:
            known = vals[0] in BUCKET_HOSTS
        outcome, detail = run_query(text)
        if known:
            obl.append(("known-bucket-yields-a-value/%s" % f, outcome == "ok" and detail == "value"))
        else:
            obl.append(("unknown-bucket-is-a-function-error/%s" % f, outcome == "ok" and detail == "QueryFunctionException"))
    return obl, obs


LONG_CASES = [("digits", 150), ("digits", 4300), ("digits", 4301), ("list", 150), ("list", 1500), ("dict", 150), ("dict", 1500), ("call", 150), ("call", 700), ("string", 150), ("string", 5000)]


def h_long(x):
    """inputs whose SIZE is the unusual part: a very long integer literal, very deep nesting of lists /
    dicts / calls, a very long string — with one arbitrary character at the end of the core"""
    candidates()
    kind, n = LONG_CASES[x.choice("case", len(LONG_CASES))]
    c = sstr.fresh_char(x, "c0")
    if kind == "digits":
        body = ["7"] * (n - 1) + [c]
    elif kind == "list":
        body = ["["] * n + [c] + ["]"] * n
    elif kind == "dict":
        body = list("{'a':" * n) + [c] + ["}"] * n
    elif kind == "call":
        body = list("nop(" * n) + [c] + [")"] * n
    else:
        body = ['"'] + ["a"] * n + [c, '"']
    text = sstr.mk(list("RETURN = ") + body + [";"])
    return verdict(text)


_THRESHOLD = {}


def depth_threshold(opener, closer, inner):
    """largest nesting depth that the real code still evaluates under the interpreter's own recursion limit,
    found by bisection on concrete texts from the caller's stack depth (the scan is centred on it)"""
    key = (opener, closer, inner)
    if key not in _THRESHOLD:
        def works(d):
            try:
                return run_query("RETURN = " + opener * d + inner.replace("%s", " ") + closer * d + ";", concrete_limit=True) == ("ok", "value")
            except BaseException:  # noqa — whatever happens beyond the limit, the depth does not work
                return False

        lo, hi = 1, 4000
        while lo < hi:
            mid = (lo + hi + 1) // 2
            if works(mid):
                lo = mid
            else:
                hi = mid - 1
        _THRESHOLD[key] = lo
    return _THRESHOLD[key]


def h_depth(x, opener, closer, inner, window):
    """nesting depths around the point where the interpreter's recursion limit is reached, one by one:
    parsing and interpreting need a different number of frames per level, so the depth at which each gives
    up differs.  The symbolic run has recursion headroom; what decides is the native run of each path's
    model under the real limit."""
    candidates(identifiers(inner))
    t = depth_threshold(opener, closer, inner)
    d = t - window + x.choice("depth_offset", 2 * window + 1)
    c = sstr.fresh_char(x, "c0")
    pre, post = inner.split("%s")
    text = sstr.mk(list("RETURN = ") + list(opener * d) + list(pre) + [c] + list(post) + list(closer * d) + [";"])
    obl, obs = verdict(text)
    return obl, []  # whether the limit is hit legitimately differs between the shadow run (headroom) and the native run


def queried_then_deleted(ds):
    """bucket b1 is queried successfully, then deleted — on the same Datastore object"""
    for f in ("query_bucket", "query_bucket_eventcount", "find_bucket"):
        Q2.query("earlier", 'RETURN = %s("b1");' % f, T0, T0 + timedelta(hours=1), ds)
    ds.delete_bucket("b1")


def h_deleted_bucket(x):
    """a bucket that existed and was queried earlier on the same Datastore object is unknown after its deletion:
    every bucket function reports a function error for it (one arbitrary character may replace any character of
    the program: still no escape)"""
    candidates()
    f = ["query_bucket", "query_bucket_eventcount", "find_bucket"][x.choice("fn", 3)]
    seed = 'RETURN = %s("b1");' % f
    chars = list(seed)
    mutate = x.choice("mutate", 2)
    if mutate:
        pos = x.choice("pos", len(chars))
        chars[pos] = sstr.fresh_char(x, "c0")
    text = sstr.mk(chars)
    outcome, detail = run_query(text, prepare=queried_then_deleted)
    if outcome == "escape":
        return [("no-escape: " + detail, False)], ["escape", detail]
    if outcome == "timeout":
        return [("terminates", False)], ["timeout"]
    obl = [("no-escape", True), ("terminates", True)]
    if not mutate:
        obl.append(("deleted-bucket-is-an-unknown-bucket/%s" % f, outcome == "ok" and detail == "QueryFunctionException"))
    return obl, [outcome if outcome == "ok" else "outside"]


CONTEXTS = ["%s", "RETURN=%s", "RETURN=nop(%s)", "RETURN=[%s]", "RETURN={%s}", "RETURN={'a':%s}", "RETURN=sum_durations(%s);"]


def h_free(x, ctx, length):
    candidates(identifiers(ctx))
    pre, post = ctx.split("%s")
    chars = list(pre) + [sstr.fresh_char(x, "c%d" % i) for i in range(length)] + list(post)
    return verdict(sstr.mk(chars))


SEEDS = [
    "RETURN=1;",
    "x = 12; RETURN = x;",
    "RETURN = nop();",
    'RETURN = "a,b]";',
    "RETURN = [1, 'a', [2]];",
    "RETURN = {'k': 1, \"j\": [2, {'x': 'y'}]};",
    'RETURN = limit_events(query_bucket("b1"), 1);',
    'e = query_bucket(find_bucket("b"));\nRETURN = sort_by_timestamp(e);',
    'RETURN = filter_keyvals(query_bucket("b1"), "k", ["v0"]);',
    "RETURN = nop(nop(), 2)",
    "RETURN = {'test': };",
    "RETURN = [1,];",
    "asd=1;RETURN=asd2",
    "RETURN = query_bucket('b3')",
    'RETURN = query_bucket_eventcount("b1") ;',
    "RETURN = find_bucket('b', \"host2\");",
]
SHORT_SEEDS = ["RETURN=1;", "RETURN=nop();", "RETURN=[1];", "RETURN={'a':1};", "x=1;RETURN=x"]


def harnesses(tier):
    install()
    hs = []
    for i, seed in enumerate(SEEDS):
        hs.append((Harness(PROP, "mutate-seed%02d" % i, h_mutate, dict(seed=seed), "seed %r: one arbitrary Unicode character substituted at / inserted before every position" % seed, split_depth=6), 900))
    if tier == "thorough":
        for i, seed in enumerate(SEEDS):
            for edit in EDITS[1:]:
                hs.append((Harness(PROP, "mutate-seed%02d-%s" % (i, edit), h_mutate, dict(seed=seed, edit=edit), "seed %r after a %s edit at every position, then one arbitrary character substituted / inserted" % (seed, edit), split_depth=7), 1800))
        for i, seed in enumerate(SHORT_SEEDS):
            hs.append((Harness(PROP, "mutate2-short%02d" % i, h_mutate, dict(seed=seed, nsym=2), "seed %r with two arbitrary characters substituted / inserted" % seed, split_depth=8), 3600))
    hs.append((Harness(PROP, "bucket-deleted-after-being-queried", h_deleted_bucket, {}, "the three bucket functions on a bucket that was queried and then deleted on the same Datastore object; optionally one arbitrary character substituted", split_depth=7), 900))
    hs.append((Harness(PROP, "builtin-misuse", h_misuse, dict(maxargs=2 if tier == "quick" else 3), "every registered built-in with 0..%d arguments drawn from %d values of assorted types" % (2 if tier == "quick" else 3, len(ARGS)), split_depth=8), 1800))
    hs.append((Harness(PROP, "long-inputs", h_long, {}, "integer literals of up to 4301 digits, lists / dicts nested 1500 deep, calls 700 deep, strings of 5000 characters, one arbitrary character inside", split_depth=6), 1800))
    w = 5 if tier == "quick" else 40
    for nm, (o, c_, inner) in dict(list=("[", "]", "nop(%s)"), dict=("{'a':", "}", "sum_durations([%s])"), call=("sort_by_timestamp(", ")", "[%s]")).items():
        if tier == "quick" and nm != "list":
            continue
        hs.append((Harness(PROP, "depth-scan-%s" % nm, h_depth, dict(opener=o, closer=c_, inner=inner, window=w), "every nesting depth within %d of the deepest one that still evaluates (found by bisection), %r around %r with one arbitrary character inside" % (w, o, inner), split_depth=7), 1800))
    lengths = [1, 2] if tier == "quick" else [1, 2, 3]
    for ci, ctx in enumerate(CONTEXTS):
        for L in lengths:
            hs.append((Harness(PROP, "free-ctx%d-len%d" % (ci, L), h_free, dict(ctx=ctx, length=L), "context %r with %d arbitrary characters" % (ctx, L), split_depth=6), 1800))
    if tier == "thorough":
        hs.append((Harness(PROP, "free-ctx0-len4", h_free, dict(ctx="%s", length=4), "4 arbitrary characters", split_depth=8), 3600))
    return hs


def meta(chk, tier):
    chk.functions = C.source_files("aw_query/query2.py", "aw_query/functions.py", "aw_query/exceptions.py")
    chk.functions.append(dict(functions=["aw_query.query2.query", "parse", "_parse_token", "Q*.check / parse / interpret", "get_return", "functions.q2_function / q2_typecheck wrappers, _verify_*"]))
    chk.bounds = [
        "%d seed programs (valid programs and the suite's malformed ones); every position: substitute by / insert one symbolic character ranging over ALL Unicode code points (surrogates excluded)" % len(SEEDS),
        "thorough: the same after a delete / duplicate / swap edit at every position; two symbolic characters on %d short seeds" % len(SHORT_SEEDS),
        "free strings of 1..2 (quick) / 1..3 (+4 bare) (thorough) symbolic characters alone and inside %d contexts" % (len(CONTEXTS) - 1),
        "long inputs (kind, size): %s" % (LONG_CASES,),
        "nesting depth scan: every depth within %d of the deepest nesting (of lists; thorough: also dicts and calls) that still evaluates under the interpreter's real recursion limit, decided by the native run" % (5 if tier == "quick" else 40),
        "each path limited to 30 s wall clock (a path that exceeds it is reported as non-termination)",
    ]
    chk.stubs = ["aw_query.query2.int -> sym_int (decimal digits; other symbolic chars -> ValueError like CPython)", "aw_query.functions.isinstance -> treats a symbolic integer as int",
                 "symbolic string hash: forks on equality with every registered identifier (function names, namespace keys, seed identifiers, bucket ids); otherwise a constant"]
    chk.assumptions = [
        "an exception whose innermost repository frame lies outside aw_query/ (inside a transform or datastore body, after name/arity/type resolution) is outside the property and counted as 'outside'",
        "which query error is raised for which malformation is not asserted beyond membership in the QueryException family",
        "datastore: memory backend with two small buckets",
    ]


def main(tier, seed, args):
    return C.run_check(sys.modules[__name__], tier, seed, args)
