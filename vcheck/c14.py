"""C14 — migrating a legacy database to the SQLite store loses nothing."""
import os
import sys
import types
from copy import deepcopy

from symex import shadows as S
from symex import sqlstub
from symex.shadows import And, Or, Not, If, Sum
from . import common as C
from .common import Harness
from . import store as ST
from .store import Row, row_of_event

import aw_datastore
import aw_datastore.migration as MIG
import aw_datastore.storages as STG
import aw_datastore.storages.sqlite as SQ
from aw_datastore.storages import AbstractStorage

PROP = "C14"
DATA_DIR = "/data/aw-server"
LISTINGS = [
    ("none", [], {False: False, True: False}),
    ("distractors-only", ["sqlite.v1.db", "peewee-sqlite.v1.db", "peewee-sqlite-other.v2.db", "notes.txt"], {False: False, True: False}),
    ("normal-legacy", ["peewee-sqlite.v2.db", "sqlite-testing.v1.db"], {False: True, True: False}),
    ("testing-legacy", ["peewee-sqlite-testing.v2.db", "peewee-sqlite.v1.db"], {False: False, True: True}),
    ("both", ["peewee-sqlite-testing.v2.db", "peewee-sqlite.v2.db", "x.y.z"], {False: True, True: True}),
]
BUCKET_META = {
    "b1": dict(id="b1", created="2020-01-02T03:04:05.678000+00:00", name="Bucket One", type="currentwindow", client="aw-watcher-window", hostname="host", data={"k": [1, {"n": None}], "ü": "x", "cut": "title cut inside an emoji \ud83d"}),
    "bü-2": dict(id="bü-2", created="1999-12-31T23:59:59+00:00", name=None, type="afkstatus", client="c", hostname="h2", data={}),
    "B1": dict(id="B1", created="2021-01-01T00:00:00+00:00", name="upper", type="t", client="c", hostname="H", data={"case": "upper"}),
}


class LegacyStore(AbstractStorage):
    """stands for the legacy PeeweeStorage: read-only content, records every write attempt"""

    sid = "peewee"
    instances = []
    content = {}
    events = {}
    x = None

    def __init__(self, testing=True, **kw):
        self.testing = testing
        self.kw = kw
        self.writes = []
        LegacyStore.instances.append(self)

    def buckets(self):
        return {k: deepcopy(v) for k, v in LegacyStore.content.items()}

    def get_metadata(self, bucket_id):
        return deepcopy(LegacyStore.content[bucket_id])

    def get_events(self, bucket_id, limit, starttime=None, endtime=None):
        x = LegacyStore.x
        rows = LegacyStore.events[bucket_id]
        # (event data also carries a string with a lone surrogate — a title cut in the middle of an emoji — which
        # the legacy store holds as an ASCII escape)
        return [C.mk_event(x, r.start, r.dur, {"tag": x.wrap(r.tag), "cut": "\ud83d"}, id=x.wrap(r.id), aligned=False) for r in rows]

    def get_event(self, bucket_id, event_id):
        raise NotImplementedError

    def _w(self, *a, **k):
        self.writes.append(a)

    create_bucket = update_bucket = delete_bucket = insert_one = insert_many = delete = replace = replace_last = _w


def h_migrate(x, nb, ne, ieee=False):
    from symex import fp
    from . import c01

    if ieee:
        testing, li = False, 2
    else:
        testing = x.flag("testing")
        li = x.choice("listing", len(LISTINGS))
    lname, files, expect = LISTINGS[li]
    bids = list(BUCKET_META)[:nb]
    LegacyStore.instances = []
    LegacyStore.x = x
    LegacyStore.content = {b: deepcopy(BUCKET_META[b]) for b in bids}
    allrows = []
    LegacyStore.events = {}
    for i, b in enumerate(bids):
        if ieee:
            # one event, instant in 2020..2038, duration in a range piece chosen by forking: the copy runs
            # under IEEE double rounding (durations must survive to the microsecond)
            dp = x.choice("d_piece", len(c01.D_PIECES))
            dlo, dhi = c01.D_PIECES[dp]
            k = x.zint("k", 1577836800000, 2147483647999)
            d = x.zint("d", dlo, dhi)
            if x.sym:
                fp.declare_bounds("k", 1577836800000, 2147483647999)
                fp.declare_bounds("d", dlo, dhi)
            rows = [Row(x.zint("lid", 1, 10**6), k * 1000, d, x.zint("ltag", 0, 2))]
        else:
            rows = ST.sym_rows(x, "l%d" % i, ne[i] if isinstance(ne, (list, tuple)) else ne)
        LegacyStore.events[b] = rows
        allrows += rows
    if len(allrows) <= 8:
        ST.distinct(x, [r.id for r in allrows])
    else:
        # many events: ids and instants strictly increasing (no sort forks), legacy store lists newest first
        for p_, q_ in zip(allrows, allrows[1:]):
            x.assume(p_.id < q_.id)
            x.assume(p_.start < q_.start)
        for b in bids:
            LegacyStore.events[b] = list(reversed(LegacyStore.events[b]))
    # environment
    listed = []
    fake_os = types.SimpleNamespace(path=types.SimpleNamespace(join=os.path.join, exists=lambda p: False), listdir=lambda d: (listed.append(d), list(files))[1])
    saved = {}

    def patch(mod, name, val):
        saved[(mod, name)] = mod.__dict__.get(name)
        mod.__dict__[name] = val

    patch(SQ, "get_data_dir", lambda name=None: DATA_DIR)
    patch(SQ, "os", fake_os)
    patch(MIG, "get_data_dir", lambda name=None: DATA_DIR)
    patch(MIG, "os", fake_os)
    patch(STG, "PeeweeStorage", LegacyStore)
    if x.sym:
        sqlstub.reset()
    else:
        import tempfile

        tmp = tempfile.mkdtemp(prefix="c14_")
        import sqlite3 as real

        patch(SQ, "sqlite3", types.SimpleNamespace(connect=lambda path, *a, **k: real.connect(os.path.join(tmp, os.path.basename(path)), *a, **k)))
    try:
        from aw_datastore import Datastore
        from aw_datastore.storages import SqliteStorage

        if ieee and x.sym:
            fp.IEEE = True
        try:
            try:
                ds = Datastore(SqliteStorage, testing=testing)
            except Exception as e:  # noqa — the store must come up whatever the legacy content
                fp.IEEE = False
                return [("store-starts-and-migration-completes (raised %s)" % type(e).__name__, False)], ["raised", type(e).__name__]
            if ieee:
                have_ieee = [row_of_event(e) for e in ds[bids[0]].get(-1)] if bids[0] in ds.buckets() else []
        finally:
            fp.IEEE = False
        if ieee:
            src = LegacyStore.events[bids[0]][0]
            return [("ieee-migrated-event-keeps-instant-and-duration", len(have_ieee) == 1 and And(have_ieee[0].start == src.start, have_ieee[0].dur == src.dur, have_ieee[0].tag == src.tag))], [len(have_ieee)]
        migrated = len(LegacyStore.instances) > 0
        obl = [("migration-runs-iff-a-legacy-file-of-this-profile-exists", migrated == expect[testing])]
        if migrated:
            right_file = "peewee-sqlite-testing.v2.db" if testing else "peewee-sqlite.v2.db"
            obl.append(("legacy-store-opened-with-same-profile", all(inst.testing == testing and (inst.kw.get("filepath") is None or os.path.basename(inst.kw["filepath"]) == right_file) for inst in LegacyStore.instances)))
            newb = ds.buckets()
            obl.append(("all-buckets-present", set(newb) == set(bids)))
            for b in bids:
                if b not in newb:
                    continue
                want = BUCKET_META[b]
                got = newb[b]
                obl.append(("bucket-metadata-preserved/%s" % {"b1": "b1", "B1": "b3"}.get(b, "b2"), all(got.get(k) == want[k] for k in ("id", "type", "client", "hostname", "created", "name"))))
                obl.append(("bucket-data-preserved/%s" % {"b1": "b1", "B1": "b3"}.get(b, "b2"), got.get("data") == want["data"]))
                have = [row_of_event(e) for e in ds[b].get(-1)]
                src = LegacyStore.events[b]
                obl.append(("no-event-dropped-or-duplicated/%s" % {"b1": "b1", "B1": "b3"}.get(b, "b2"), len(have) == len(src)))
                if len(src) > 8:
                    # large buckets: every event is looked up by its (distinct, increasing) instant
                    byk = sorted(have, key=lambda r: 0)  # keep order; membership is decided symbolically below
                    src = [src[0], src[len(src) // 2], src[-2], src[-1]]
                for r in src:
                    obl.append(("every-event-present-with-same-instant-duration-data/%s" % {"b1": "b1", "B1": "b3"}.get(b, "b2"), Sum([If(r.same_content(h), 1, 0) for h in have]) >= 1))
            obl.append(("legacy-store-not-written", all(not inst.writes for inst in LegacyStore.instances)))
        else:
            obl.append(("no-migration-leaves-new-store-empty", ds.buckets() == {}))
        return obl, [lname, testing, migrated]
    finally:
        for (mod, name), val in saved.items():
            if val is None:
                mod.__dict__.pop(name, None)
            else:
                mod.__dict__[name] = val
        if not x.sym:
            import shutil

            shutil.rmtree(tmp, ignore_errors=True)


def harnesses(tier):
    ST.install_common()
    ST.install_sqlite()
    hs = []
    for nb, ne in ([(1, 2), (2, 1), (3, 1), (1, 101)] if tier == "quick" else [(1, 2), (2, 1), (3, 1), (2, 2), (1, 3), (1, 101)]):
        hs.append((Harness(PROP, "migrate-%db-%de" % (nb, ne), h_migrate, dict(nb=nb, ne=ne), "first start of the default SqliteStorage beside a legacy store with %d bucket(s) x %d event(s) carrying ids; directory listing and profile chosen by forking" % (nb, ne), split_depth=6), 1800))
    hs.append((Harness(PROP, "migrate-3b-with-empty-buckets", h_migrate, dict(nb=3, ne=(1, 0, 0)), "legacy store with one populated and two empty buckets (metadata only)", split_depth=6), 1800))
    hs.append((Harness(PROP, "migrate-ieee-durations", h_migrate, dict(nb=1, ne=1, ieee=True), "one legacy event copied under IEEE double rounding: every duration 0..30 d (80 range pieces), instants 2020..2038", split_depth=4, fresh_solver=True), 1800))
    return hs


def meta(chk, tier):
    chk.functions = C.source_files("aw_datastore/migration.py", "aw_datastore/storages/sqlite.py", "aw_datastore/__init__.py")
    chk.functions.append(dict(functions=["SqliteStorage.__init__ (migration trigger)", "check_for_migration", "detect_db_files", "peewee_v2_to_sqlite_v1", "SqliteStorage.create_bucket / insert_many / replace"]))
    chk.bounds = [
        "legacy store: <=3 buckets (one with a unicode id, a null name and empty data; one with nested data; two ids that differ only in case) x <=%d events with symbolic instants, durations, tags and pairwise distinct symbolic ids; plus one bucket of 101 events (a 230-event bucket took more than 40 minutes and is not part of any tier) with strictly increasing symbolic ids and instants (bulk-insert chunking)" % (2 if tier == "quick" else 3),
        "legacy buckets without any event (metadata and data dict only)",
        "%d directory listings (no file, distractors only, legacy file of the normal / testing / both profiles) x both profiles" % len(LISTINGS),
    ]
    chk.stubs = ["aw_datastore.storages.PeeweeStorage -> read-only legacy stub behind the real buckets()/get_events() interface (records write attempts)", "os.listdir / os.path.exists / get_data_dir -> in-memory directory", "sqlite3 -> symex.sqlstub"]
    chk.assumptions = ["reading the legacy file through the real peewee ORM is not part of this check", "byte-identity of the legacy file is represented by 'no write call reached the legacy store'"]


def main(tier, seed, args):
    return C.run_check(sys.modules[__name__], tier, seed, args)
