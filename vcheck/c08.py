"""C08 — heartbeat_merge is the pulsetime hull rule; heartbeat_reduce is a normal form."""
import sys
from copy import deepcopy

import z3  # noqa

from symex import shadows as S
from symex.shadows import And, Or, Not, Implies, Iff, If
from . import common as C
from .common import Harness, mk_event, ev_start, ev_dur, truth, zv

import aw_core.models as M
import aw_transform.heartbeats  # noqa

HB = sys.modules["aw_transform.heartbeats"]

PROP = "C08"
T_MAX_MS = 4_200_000_000_000  # 1970 .. ~2103 in ms
D_MAX_US = 10**13  # |duration| <= ~115 days
P_MAX_US = 10**12  # pulsetime <= ~11.5 days


def install():
    C.stub(M, "int", S.sym_int)
    C.stub(HB, "timedelta", S.sym_timedelta)
    C.stub(HB, "int", S.sym_int)
    C.shadow_module(HB)


def inputs(x, n, ntags=2):
    evs = []
    raw = []
    for i in range(n):
        k = x.zint("k%d" % i, 0, T_MAX_MS)
        d = x.ranged("dm%d" % i, 0, 2**17) * 1000 if C.FLOATS else x.zint("d%d" % i, -D_MAX_US, D_MAX_US)
        l = x.zint("l%d" % i, 0, ntags - 1)
        raw.append((k * 1000, d, l))
        evs.append(mk_event(x, k * 1000, d, {"k": x.wrap(l)}, aligned=False))
    p = x.zint("p", 0, P_MAX_US)
    return evs, raw, p


def ref_merge(a, b, p):
    """reference rule on (start, dur, tag) triples; returns merged triple or None (forks)"""
    (t1, d1, l1), (t2, d2, l2) = a, b
    cond = And(l1 == l2, t1 <= t2, t2 <= t1 + d1 + p, d1 >= 0)
    if truth(cond):
        nd = t2 - t1 + d2
        return (t1, If(d1 >= nd, d1, nd), l1)
    return None


def mergeable(a, b, p):
    (t1, d1, l1), (t2, d2, l2) = a, b
    return And(l1 == l2, t1 <= t2, t2 <= t1 + d1 + p, d1 >= 0)


def h_merge(x):
    evs, raw, p = inputs(x, 2)
    (t1, d1, l1), (t2, d2, l2) = raw
    a, b = deepcopy(evs[0]), deepcopy(evs[1])
    r = HB.heartbeat_merge(a, b, x.seconds_us(p))
    cond = mergeable(raw[0], raw[1], p)
    obl = []
    if r is None:
        obl.append(("none-only-if-rule-fails", Not(cond)))
        # a refused merge leaves both events as they were
        obl.append(("refused-merge-leaves-inputs", And(ev_start(a) == t1, ev_dur(a) == d1, ev_start(b) == t2, ev_dur(b) == d2)))
        obs = ["none"]
    else:
        nd = t2 - t1 + d2
        obl.append(("merged-only-if-rule-holds", cond))
        obl.append(("keeps-first-start", ev_start(r) == t1))
        obl.append(("keeps-first-data", zv(r.data["k"]) == l1))
        obl.append(("ends-at-later-end", ev_dur(r) == If(d1 >= nd, d1, nd)))
        obl.append(("never-shortens", And(ev_dur(r) >= d1, t1 + ev_dur(r) >= t2 + d2)))
        obl.append(("second-untouched", And(ev_start(b) == t2, ev_dur(b) == d2)))
        obs = ["merged", ev_start(r), ev_dur(r)]
    return obl, obs


def h_reduce(x, n):
    evs, raw, p = inputs(x, n)
    pulse = x.seconds_us(p)
    out = HB.heartbeat_reduce(deepcopy(evs), pulse)
    # reference: left fold of the rule
    ref = []
    for trip in raw:
        if ref:
            m = ref_merge(ref[-1], trip, p)
            if m is not None:
                ref[-1] = m
                continue
        ref.append(trip)
    obl = []
    obl.append(("fold-length", len(out) == len(ref)))
    if len(out) == len(ref):
        for j, (o, (t, d, l)) in enumerate(zip(out, ref)):
            obl.append(("fold-equal-%d" % j, And(ev_start(o) == t, ev_dur(o) == d, zv(o.data["k"]) == l)))
    trips = [(ev_start(o), ev_dur(o), zv(o.data["k"])) for o in out]
    for j in range(len(trips) - 1):
        obl.append(("no-consecutive-mergeable-%d" % j, Not(mergeable(trips[j], trips[j + 1], p))))
    for i, (t, d, l) in enumerate(raw):
        cov = Or([And(lo == l, to <= t, t + d <= to + do) for (to, do, lo) in trips])
        obl.append(("covers-input-%d" % i, Implies(d >= 0, cov)))
    again = HB.heartbeat_reduce(deepcopy(out), pulse)
    obl.append(("idempotent-length", len(again) == len(out)))
    if len(again) == len(out):
        obl.append(("idempotent", And([And(ev_start(a) == ev_start(o), ev_dur(a) == ev_dur(o), zv(a.data["k"]) == zv(o.data["k"])) for a, o in zip(again, out)])))
    obs = [len(out)] + [[t, d, l] for t, d, l in trips]
    return obl, obs


DATA_SHAPES = [{"app": "x", "title": None}, {"app": "x", "url": "u"}, {"app": "x", "title": None}, {"app": "x"}, {}, {"app": "x", "title": ""}, {"app": "x", "title": 0},
               {"app": "x", "n": [1, {"a": None}]}, {"app": "x", "n": [1, {"a": None}]}, {"app": "x", "n": [1, {}]}, {"title": None, "app": "x"}, {"app": "X", "title": None}]


def h_merge_shapes(x):
    """heartbeat_merge on two events whose data are drawn (by forking) from a pool of dict shapes — None values,
    missing keys, same number of keys with different keys, nested values, key order: they merge iff the
    data are equal as JSON documents (and the time rule holds), and the merged event carries the first's data"""
    import json

    i1 = x.choice("shape1", len(DATA_SHAPES))
    i2 = x.choice("shape2", len(DATA_SHAPES))
    t1 = x.zint("k0", 0, T_MAX_MS) * 1000
    t2 = x.zint("k1", 0, T_MAX_MS) * 1000
    d1 = x.zint("d0", -D_MAX_US, D_MAX_US)
    d2 = x.zint("d1", -D_MAX_US, D_MAX_US)
    p = x.zint("p", 0, P_MAX_US)
    a = mk_event(x, t1, d1, deepcopy(DATA_SHAPES[i1]), aligned=False)
    b = mk_event(x, t2, d2, deepcopy(DATA_SHAPES[i2]), aligned=False)
    same = json.dumps(DATA_SHAPES[i1], sort_keys=True) == json.dumps(DATA_SHAPES[i2], sort_keys=True)
    rule = And(t1 <= t2, t2 <= t1 + d1 + p, d1 >= 0)
    r = HB.heartbeat_merge(a, b, x.seconds_us(p))
    if r is None:
        return [("none-only-if-data-differ-or-time-rule-fails", Not(rule) if same else True)], ["none", i1, i2]
    return [("merged-only-if-data-equal", same), ("merged-only-if-time-rule-holds", rule), ("merged-keeps-first-data", json.dumps(r.data, sort_keys=True) == json.dumps(DATA_SHAPES[i1], sort_keys=True)),
            ("second-keeps-its-data", b.data == DATA_SHAPES[i2])], ["merged", i1, i2]


LARGE_PREFIXES = [98, 99, 126, 127, 254, 255, 498, 499, 510, 511, 998, 999, 1022, 1023]


def h_reduce_large(x, k=4):
    """long streams: a concrete prefix of P never-mergeable events (P chosen by forking just below common chunk
    sizes), then k symbolic events; the result equals the left fold (behaviour that depends on the number of
    events — chunking, batching — is in play)"""
    P = LARGE_PREFIXES[x.choice("prefix", len(LARGE_PREFIXES))]
    base = 1500000000000
    pre = [mk_event(x, (base + 10000 * i) * 1000, 1000000, {"k": 100 + i}, aligned=True) for i in range(P)]
    evs, raw, p = inputs(x, k)
    for (t, d, l) in raw:
        x.assume(t > (base + 10000 * P) * 1000)  # the symbolic tail comes after the prefix
    x.assume(p < 5 * 10**6)  # prefix events are 10 s apart and 1 s long: never merged under a pulsetime below 5 s
    out = HB.heartbeat_reduce(pre + deepcopy(evs), x.seconds_us(p))
    ref = []
    for trip in raw:
        if ref:
            m = ref_merge(ref[-1], trip, p)
            if m is not None:
                ref[-1] = m
                continue
        ref.append(trip)
    tail = out[P:]
    obl = [("prefix-kept", len(out) >= P and all(o.data == {"k": 100 + i} for i, o in enumerate(out[:P]))), ("fold-length", len(tail) == len(ref))]
    if len(tail) == len(ref):
        for j, (o, (t, d, l)) in enumerate(zip(tail, ref)):
            obl.append(("fold-equal-%d" % j, And(ev_start(o) == t, ev_dur(o) == d, zv(o.data["k"]) == l)))
    return obl, [P, len(out)]


def h_reach(x):
    """reachability twin of h_merge: same assumptions and code, obligation False on the merged path"""
    evs, raw, p = inputs(x, 2)
    r = HB.heartbeat_merge(deepcopy(evs[0]), deepcopy(evs[1]), x.seconds_us(p))
    return [("twin-merged" if r is not None else "twin-none", False)], []


def harnesses(tier):
    install()
    hs = [(Harness(PROP, "merge-pair", h_merge, {}, "heartbeat_merge on two events, all fields symbolic", cross_solver=20), 120)]
    hs.append((Harness(PROP, "merge-pair-float-semantics", C.with_floats(h_merge), {}, "heartbeat_merge on two events with IEEE double semantics for any float arithmetic, durations whole ms < 2^17 in binary range pieces", split_depth=7, fresh_solver=True), 600))
    hs.append((Harness(PROP, "reduce-n2-float-semantics", C.with_floats(h_reduce), dict(n=2), "heartbeat_reduce on 2 events with IEEE double semantics for any float arithmetic, durations whole ms < 2^17 in binary range pieces", split_depth=7, fresh_solver=True), 600))
    hs.append((Harness(PROP, "merge-pair-data-shapes", h_merge_shapes, {}, "heartbeat_merge on two events with data drawn from %d dict shapes (None values, missing keys, nesting, key order), times symbolic" % len(DATA_SHAPES), split_depth=8), 600))
    hs.append((Harness(PROP, "reduce-large-streams", h_reduce_large, dict(k=3 if tier == "quick" else 4), "heartbeat_reduce on streams of 98..1022 concrete never-mergeable events followed by %d symbolic ones" % (3 if tier == "quick" else 4), split_depth=8), 1800))
    ns = [2, 3] if tier == "quick" else [2, 3, 4, 5, 6, 7]
    for n in ns:
        hs.append((Harness(PROP, "reduce-n%d" % n, h_reduce, dict(n=n), "heartbeat_reduce on %d events vs left fold of the reference rule" % n, split_depth=8, cross_solver=3), 900))
    return hs


def meta(chk, tier):
    chk.functions = C.source_files("aw_transform/heartbeats.py", "aw_core/models.py")
    chk.functions.append(dict(functions=["aw_transform.heartbeats.heartbeat_merge", "aw_transform.heartbeats.heartbeat_reduce", "aw_core.models.Event.__init__/setters", "aw_core.models._timestamp_parse"]))
    chk.bounds = [
        "events per list: 2 (pair), %s (reduce)" % ("2..3" if tier == "quick" else "2..7"),
        "timestamps: any multiple of 1 ms in [1970, ~2103] (symbolic integer), any order, ties allowed",
        "durations: any integer microseconds in [-1e13, 1e13] (negative, zero, positive)",
        "pulsetime: any integer microseconds in [0, 1e12] passed as seconds (fractional values included)",
        "data: one key with 2 possible symbolic tag values (equal / different); for pairs also %d concrete dict shapes" % len(DATA_SHAPES),
        "long streams: %s concrete events followed by 3 (thorough: 4) symbolic ones" % LARGE_PREFIXES,
    ]
    chk.stubs = ["aw_core.models.int -> sym_int (truncation of exact ratio)", "aw_transform.heartbeats.timedelta -> sym_timedelta (exact: pulsetime seconds == given microseconds; float rounding of pulsetime not modelled)", "logging disabled"]
    chk.assumptions = [
        "timedelta(seconds=pulsetime) is modelled exact (pulsetime is an exact number of microseconds)",
        "more than %d events per list are outside the claim" % (3 if tier == "quick" else 7),
        "data compared through one symbolic tag (dict equality is executed by CPython on the shadow)",
    ]


def post(chk, tier):
    # vacuity: both outcomes of heartbeat_merge must be reachable under the assumptions
    h = Harness(PROP, "reach-twin", h_reach, {}, "reachability twin")
    r = C.run_harness(h, budget_s=60, seed=chk.seed)
    names = sorted({c["obligation"] for c in r.cex})
    chk.vacuity.append(dict(twin="merge-pair with obligation False", reached=names, ok=names == ["twin-merged", "twin-none"]))
    if names != ["twin-merged", "twin-none"]:
        chk.harness_errors.append("vacuity: reachability twin reached only %s" % names)


def main(tier, seed, args):
    return C.run_check(sys.modules[__name__], tier, seed, args)
