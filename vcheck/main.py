"""./check <PROPERTY> [--tier quick|thorough] [--replay file] [--only harness-substring]"""
import argparse
import importlib
import logging
import os
import sys


def main():
    ap = argparse.ArgumentParser()
    ap.add_argument("prop")
    ap.add_argument("--tier", default=os.environ.get("VERIF_TIER", "quick"))
    ap.add_argument("--replay")
    ap.add_argument("--only", default=None)
    ap.add_argument("--budget-scale", type=float, default=1.0)
    a = ap.parse_args()
    if a.tier not in ("quick", "thorough"):
        a.tier = "quick"
    seed = int(os.environ.get("VERIF_SEED", "0") or 0)
    logging.disable(logging.CRITICAL)  # logger.* of the code under test are no-ops (formatting never forks)
    mod = importlib.import_module("vcheck.%s" % a.prop.lower())
    if a.replay:
        from . import common

        mod.harnesses("quick")
        mod.harnesses("thorough")
        sys.exit(common.do_replay(a.replay))
    sys.exit(mod.main(a.tier, seed, a))


if __name__ == "__main__":
    main()
