"""C04 — operations addressed to one bucket never change any other bucket."""
import sys

from symex import shadows as S
from symex.shadows import And, Or, Not, If, Sum
from . import common as C
from .common import Harness
from . import store as ST
from .store import Row, same_rows_as_sets, same_rows_in_order, api_rows, row_of_event

PROP = "C04"
OPS = ["insert", "upsert_one", "upsert_many", "replace", "replace_last", "delete", "update_bucket", "delete_bucket", "failing_bulk_insert_with_pending_writes", "replace_reusing_event_object"]


def h_frame(x, bk, op, na, nb):
    A = ST.sym_rows(x, "a", na)
    B = ST.sym_rows(x, "b", nb)
    ST.distinct(x, [r.id for r in A + B] if bk != "memory" else [r.id for r in A])
    if bk == "memory":
        ST.distinct(x, [r.id for r in B])
    be = ST.backend(bk)
    seq = x.zint("seq", 0, 2 * 10**6) if bk != "memory" else None
    ds = be.make(x, {"A": A, "B": B}, seq=seq)
    try:
        shared_ev = None
        if op == "replace_reusing_event_object":
            extra = ST.sym_rows(x, "x", 1, ids=False)[0]
            shared_ev = ST.event_of_row(x, extra)
            ds["B"].replace(x.wrap(B[0].id), shared_ev)
            B = [Row(B[0].id, extra.start, extra.dur, extra.tag)] + B[1:]
        if op == "failing_bulk_insert_with_pending_writes":
            # B gets a write that is still buffered (not yet committed on the lazily committing store) ...
            extra = ST.sym_rows(x, "x", 1, ids=False)[0]
            ret = ds["B"].insert(ST.event_of_row(x, extra))
            B = B + [Row(C.zv(ret.id), extra.start, extra.dur, extra.tag)]
            before_api = None
        else:
            before_api = api_rows(ds, "B")
        before_meta = dict(ds["B"].metadata())
        b = ds["A"]
        new = ST.sym_rows(x, "n", 2, ids=False)
        qid = x.zint("qid", 1, 3 * 10**6)  # unconstrained: may be an id of A, of B, or of nothing
        raised = None
        try:
            if op == "insert":
                b.insert(ST.event_of_row(x, new[0]))
            elif op == "upsert_one":
                b.insert(C.mk_event(x, new[0].start, new[0].dur, {"tag": x.wrap(new[0].tag)}, id=x.wrap(qid), aligned=False))
            elif op == "upsert_many":
                b.insert([C.mk_event(x, new[0].start, new[0].dur, {"tag": x.wrap(new[0].tag)}, id=x.wrap(qid), aligned=False), ST.event_of_row(x, new[1])])
            elif op == "replace":
                b.replace(x.wrap(qid), ST.event_of_row(x, new[0]))
            elif op == "replace_last":
                b.replace_last(ST.event_of_row(x, new[0]))
            elif op == "delete":
                b.delete(x.wrap(qid))
            elif op == "update_bucket":
                ds.update_bucket("A", type_id="t2", client="c2", hostname="h2", name="n2", data={"k": 2})
            elif op == "delete_bucket":
                ds.delete_bucket("A")
            elif op == "replace_reusing_event_object":
                # the caller reuses one Event object: first for B (before the snapshot was taken), now for A
                b.replace(x.wrap(A[0].id), shared_ev) if A else None
            elif op == "failing_bulk_insert_with_pending_writes":
                # ... then a bulk insert into A is rejected (second event is not JSON-serialisable)
                bad = C.mk_event(x, new[1].start, new[1].dur, {"tag": x.wrap(new[1].tag), "bad": {1, 2}}, aligned=False)
                b.insert([ST.event_of_row(x, new[0]), bad])
        except Exception as e:  # rejected: fine, as long as B is untouched
            raised = type(e).__name__
        tab = be.table_rows(ds)
        obl = [("other-bucket-rows-untouched", same_rows_as_sets(tab.get("B", []), B))]
        obl.append(("no-orphan-rows", "<orphans>" not in tab))
        after_api = api_rows(ds, "B")
        if before_api is None:
            obl.append(("other-bucket-reads-back-identical", same_rows_as_sets(after_api, B)))
        else:
            obl.append(("other-bucket-reads-back-identical", same_rows_in_order(after_api, before_api)))
        obl.append(("other-bucket-metadata-identical", dict(ds["B"].metadata()) == before_meta))
        obl.append(("other-bucket-still-listed", "B" in ds.buckets()))
        return obl, [op, raised, len(tab.get("B", []))]
    finally:
        be.close()


def harnesses(tier):
    ST.install_common()
    ST.install_sqlite()
    hs = []
    sizes = [(1, 1)] if tier == "quick" else [(1, 1), (2, 2), (0, 2)]
    ST.install_peewee()
    for bk in ["memory", "sqlite", "peewee"]:
        for op in OPS:
            for na, nb in sizes:
                if na == 0 and op in ("replace_last",):
                    continue
                hs.append((Harness(PROP, "%s-%s-%d+%d" % (bk, op, na, nb), h_frame, dict(bk=bk, op=op, na=na, nb=nb),
                                   "%s backend: %s on bucket A (%d events) with unconstrained id / instants; bucket B (%d events) must be untouched" % (bk, op, na, nb), split_depth=6), 1800))
    return hs


def meta(chk, tier):
    chk.functions = C.source_files("aw_datastore/datastore.py", "aw_datastore/storages/memory.py", "aw_datastore/storages/sqlite.py")
    chk.functions.append(dict(functions=["Bucket.insert/replace/replace_last/delete", "Datastore.update_bucket/delete_bucket", "MemoryStorage.*", "SqliteStorage.* through symex.sqlstub"]))
    chk.bounds = [
        "two buckets with %s events each in an arbitrary valid state; event ids global, symbolic, pairwise distinct; the id passed to upsert / replace / delete is unconstrained in [1, 3e6] (an id of A, of B, or of nothing)" % ("1+1" if tier == "quick" else "up to 2+2"),
        "instants multiples of 1 ms (may coincide across buckets), durations integer us in [0, 24 h]",
        "operations: " + ", ".join(OPS) + "; backends memory, sqlite",
    ]
    chk.stubs = ["as C02"]
    chk.assumptions = ["an operation that raises is 'rejected'; the other bucket must be untouched either way"]


def main(tier, seed, args):
    return C.run_check(sys.modules[__name__], tier, seed, args)
