"""C04 — operations addressed to one bucket never change any other bucket."""
import sys

from symex import shadows as S
from symex.shadows import And, Or, Not, If, Sum
from . import common as C
from .common import Harness
from . import store as ST
from .store import Row, same_rows_as_sets, same_rows_in_order, api_rows, row_of_event

PROP = "C04"
OPS = ["insert", "upsert_one", "upsert_many", "replace", "replace_last", "delete", "update_bucket", "delete_bucket", "failing_bulk_insert_with_pending_writes", "replace_reusing_event_object"]


def h_frame(x, bk, op, na, nb):
    A = ST.sym_rows(x, "a", na)
    B = ST.sym_rows(x, "b", nb)
    ST.distinct(x, [r.id for r in A + B] if bk != "memory" else [r.id for r in A])
    if bk == "memory":
        ST.distinct(x, [r.id for r in B])
    be = ST.backend(bk)
    seq = x.zint("seq", 0, 2 * 10**6) if bk != "memory" else None
    ds = be.make(x, {"A": A, "B": B}, seq=seq)
    try:
        shared_ev = None
        if op == "replace_reusing_event_object":
            extra = ST.sym_rows(x, "x", 1, ids=False)[0]
            shared_ev = ST.event_of_row(x, extra)
            ds["B"].replace(x.wrap(B[0].id), shared_ev)
            B = [Row(B[0].id, extra.start, extra.dur, extra.tag)] + B[1:]
        if op == "failing_bulk_insert_with_pending_writes":
            # B gets a write that is still buffered (not yet committed on the lazily committing store) ...
            extra = ST.sym_rows(x, "x", 1, ids=False)[0]
            ret = ds["B"].insert(ST.event_of_row(x, extra))
            B = B + [Row(C.zv(ret.id), extra.start, extra.dur, extra.tag)]
            before_api = None
        else:
            before_api = api_rows(ds, "B")
        before_meta = dict(ds["B"].metadata())
        b = ds["A"]
        new = ST.sym_rows(x, "n", 2, ids=False)
        qid = x.zint("qid", 1, 3 * 10**6)  # unconstrained: may be an id of A, of B, or of nothing
        raised = None
        try:
            if op == "insert":
                b.insert(ST.event_of_row(x, new[0]))
            elif op == "upsert_one":
                b.insert(C.mk_event(x, new[0].start, new[0].dur, {"tag": x.wrap(new[0].tag)}, id=x.wrap(qid), aligned=False))
            elif op == "upsert_many":
                b.insert([C.mk_event(x, new[0].start, new[0].dur, {"tag": x.wrap(new[0].tag)}, id=x.wrap(qid), aligned=False), ST.event_of_row(x, new[1])])
            elif op == "replace":
                b.replace(x.wrap(qid), ST.event_of_row(x, new[0]))
            elif op == "replace_last":
                b.replace_last(ST.event_of_row(x, new[0]))
            elif op == "delete":
                b.delete(x.wrap(qid))
            elif op == "update_bucket":
                ds.update_bucket("A", type_id="t2", client="c2", hostname="h2", name="n2", data={"k": 2})
            elif op == "delete_bucket":
                ds.delete_bucket("A")
            elif op == "replace_reusing_event_object":
                # the caller reuses one Event object: first for B (before the snapshot was taken), now for A
                b.replace(x.wrap(A[0].id), shared_ev) if A else None
            elif op == "failing_bulk_insert_with_pending_writes":
                # ... then a bulk insert into A is rejected (second event is not JSON-serialisable)
                bad = C.mk_event(x, new[1].start, new[1].dur, {"tag": x.wrap(new[1].tag), "bad": {1, 2}}, aligned=False)
                b.insert([ST.event_of_row(x, new[0]), bad])
        except Exception as e:  # rejected: fine, as long as B is untouched
            raised = type(e).__name__
        tab = be.table_rows(ds)
        obl = [("other-bucket-rows-untouched", same_rows_as_sets(tab.get("B", []), B))]
        obl.append(("no-orphan-rows", "<orphans>" not in tab))
        after_api = api_rows(ds, "B")
        if before_api is None:
            obl.append(("other-bucket-reads-back-identical", same_rows_as_sets(after_api, B)))
        else:
            obl.append(("other-bucket-reads-back-identical", same_rows_in_order(after_api, before_api)))
        obl.append(("other-bucket-metadata-identical", dict(ds["B"].metadata()) == before_meta))
        obl.append(("other-bucket-still-listed", "B" in ds.buckets()))
        return obl, [op, raised, len(tab.get("B", []))]
    finally:
        be.close()


HIST = ["upsertA", "deleteA", "insertB", "insertA", "replaceA", "replace_lastA"]


def h_history(x, bk, L, alphabet):
    """L operations on one store object: writes addressed to bucket A that all use one unconstrained event id
    (an id of A, of B, or of nothing), interleaved with plain inserts into bucket B; after every step bucket B
    holds exactly what was inserted into it (state kept between calls — caches, reused ids — is in play)"""
    A = ST.sym_rows(x, "a", 1)
    B = ST.sym_rows(x, "b", 1)
    ST.distinct(x, [r.id for r in A + B] if bk != "memory" else [r.id for r in A])
    be = ST.backend(bk)
    ds = be.make(x, {"A": A, "B": B})
    try:
        qid = x.zint("qid", 1, 3 * 10**6)
        model_b = list(B)
        meta_b = dict(ds["B"].metadata())
        obl, trace = [], []
        for i in range(L):
            op = alphabet[x.choice("op%d" % i, len(alphabet))]
            new = ST.sym_rows(x, "n%d" % i, 1, ids=False)[0]
            raised = None
            try:
                if op == "upsertA":
                    ds["A"].insert([C.mk_event(x, new.start, new.dur, {"tag": x.wrap(new.tag)}, id=x.wrap(qid), aligned=False)])
                elif op == "deleteA":
                    ds["A"].delete(x.wrap(qid))
                elif op == "insertA":
                    ds["A"].insert(ST.event_of_row(x, new))
                elif op == "replaceA":
                    ds["A"].replace(x.wrap(qid), ST.event_of_row(x, new))
                elif op == "replace_lastA":
                    ds["A"].replace_last(ST.event_of_row(x, new))
                elif op == "insertB":
                    x.assume(new.start > model_b[-1].start)  # B's events arrive in time order (its internal order is not the subject)
                    ret = ds["B"].insert(ST.event_of_row(x, new))
                    model_b.append(Row(C.zv(ret.id), new.start, new.dur, new.tag))
            except Exception as e:  # noqa — rejected: fine, as long as B is what it should be
                raised = type(e).__name__
            trace.append([op, raised])
            tab = be.table_rows(ds)
            obl.append(("other-bucket-holds-exactly-its-own-events-step%d" % i, same_rows_as_sets(tab.get("B", []), model_b)))
            obl.append(("no-orphan-rows-step%d" % i, "<orphans>" not in tab))
        obl.append(("other-bucket-reads-back-its-own-events", same_rows_in_order(api_rows(ds, "B"), list(reversed(model_b)))))
        obl.append(("other-bucket-metadata-identical", dict(ds["B"].metadata()) == meta_b))
        return obl, trace
    finally:
        be.close()


def harnesses(tier):
    ST.install_common()
    ST.install_sqlite()
    hs = []
    sizes = [(1, 1)] if tier == "quick" else [(1, 1), (2, 2), (0, 2)]
    ST.install_peewee()
    for bk in ["memory", "sqlite", "peewee"]:
        for op in OPS:
            for na, nb in sizes:
                if na == 0 and op in ("replace_last",):
                    continue
                hs.append((Harness(PROP, "%s-%s-%d+%d" % (bk, op, na, nb), h_frame, dict(bk=bk, op=op, na=na, nb=nb),
                                   "%s backend: %s on bucket A (%d events) with unconstrained id / instants; bucket B (%d events) must be untouched" % (bk, op, na, nb), split_depth=6), 1800))
    for bk in ["memory", "sqlite", "peewee"]:
        if tier == "quick":
            spec = [(4, HIST[:3])]
        else:
            spec = [(4, HIST[:3]), (3, HIST), (5, HIST[:3])] if bk != "peewee" else [(4, HIST[:3]), (3, HIST)]
        for L, alpha in spec:
            hs.append((Harness(PROP, "%s-history-L%d-%dops" % (bk, L, len(alpha)), h_history, dict(bk=bk, L=L, alphabet=alpha), "%s backend: every sequence of %d operations out of %s, all addressed to one unconstrained event id, on one store object" % (bk, L, alpha), split_depth=8), 3600))
    return hs


def meta(chk, tier):
    chk.functions = C.source_files("aw_datastore/datastore.py", "aw_datastore/storages/memory.py", "aw_datastore/storages/sqlite.py")
    chk.functions.append(dict(functions=["Bucket.insert/replace/replace_last/delete", "Datastore.update_bucket/delete_bucket", "MemoryStorage.*", "SqliteStorage.* through symex.sqlstub"]))
    chk.bounds = [
        "two buckets with %s events each in an arbitrary valid state; event ids global, symbolic, pairwise distinct; the id passed to upsert / replace / delete is unconstrained in [1, 3e6] (an id of A, of B, or of nothing)" % ("1+1" if tier == "quick" else "up to 2+2"),
        "instants multiples of 1 ms (may coincide across buckets), durations integer us in [0, 24 h]",
        "operations: " + ", ".join(OPS) + "; backends memory, sqlite, peewee",
        "histories on one store object: 4 operations out of upsert / delete in A with one unconstrained id and insert into B (quick); also 3 out of six kinds and 5 out of three (thorough)",
    ]
    chk.stubs = ["as C02"]
    chk.assumptions = ["an operation that raises is 'rejected'; the other bucket must be untouched either way"]


def main(tier, seed, args):
    return C.run_check(sys.modules[__name__], tier, seed, args)
