"""C01 — stored events come back exactly as inserted, and the store owns its copy."""
import sys
from copy import deepcopy
from datetime import datetime, timedelta, timezone
from fractions import Fraction

import z3

from symex import shadows as S
from symex import fp
from symex import sqlstub
from symex import engine as E
from symex.shadows import And, Or, Not, If, Sum, Implies
from . import common as C
from .common import Harness
from . import store as ST
from .store import Row, row_of_event

import aw_datastore.storages.sqlite as SQ

PROP = "C01"
U_MAX = 4_100_000_000_000_000  # 1970 .. 2099 in microseconds
D_MAX = 30 * 86400 * 10**6
DATA_POOL = [
    {},
    {"title": "ünïcödé ✓ \"quoted\" 'single' \\ back", "n": None, "f": 1.5, "i": -3, "b": True},
    {"nested": {"list": [1, [2, {"k": "v"}], None, 0.1], "empty": {}, "e": []}, "k": "v"},
]


def h_fidelity(x, bk, mode, recreated=False):
    """insert (single / bulk) an event with an arbitrary instant (us, any UTC offset), duration (us) and
    JSON data; listing and lookup return it exactly (exact arithmetic; IEEE fidelity is the ieee-* lemmas)"""
    pre = ST.sym_rows(x, "p", 1)
    be = ST.backend(bk)
    ds = be.make(x, {"A": pre, "B": []})
    try:
        if recreated:
            # the bucket id is in its second life on this store object: populated, deleted, created again
            ds["A"].insert(ST.event_of_row(x, ST.sym_rows(x, "o", 1, ids=False)[0]))
            ds.delete_bucket("A")
            ds.create_bucket("A", "type-A", "client", "host-A", created=ST.T0, name="name-A", data={"d": "A"})
            ds["A"].insert(ST.event_of_row(x, ST.sym_rows(x, "q", 1, ids=False)[0]))
        u = x.zint("u", 0, U_MAX)
        off = x.zint("off", -840, 840)
        d = x.zint("d", 0, D_MAX)
        data = deepcopy(DATA_POOL[x.choice("data", len(DATA_POOL))])
        keep = deepcopy(data)
        ev = C.mk_event(x, u, d, data, aligned=False, off=off)
        b = ds["A"]
        if mode == "single":
            ret = b.insert(ev)
            rid = ret.id if ret is not None else None
        elif mode == "bulk1":
            b.insert([ev])  # a bulk insert of a single event
            rid = None
        elif mode == "bulk_same_object":
            # the caller's list mentions one Event object three times: three events are stored, each with its own id
            b.insert([ev, ev, ev])
            rid = None
        else:
            second = C.mk_event(x, u, d, {"other": 1}, aligned=False, off=off)
            b.insert([ev, second])
            rid = None
        floor = u - u % 1000
        allrows = b.get(-1)
        mine = [e for e in allrows if e.data == keep]
        if mode == "bulk_same_object":
            ids = [C.zv(e.id) for e in allrows]
            obl = [("count", len(allrows) == 4), ("three-events-stored", len(mine) == 3), ("ids-pairwise-distinct", And([ids[i] != ids[j] for i in range(len(ids)) for j in range(i + 1, len(ids))])),
                   ("each-with-the-content", And([And(S.dt_us(g.timestamp) == floor, S.td_us(g.duration) == d) for g in mine])),
                   ("each-found-by-its-id", all(b.get_by_id(g.id) is not None and b.get_by_id(g.id).data == keep for g in mine)),
                   ("stored-events-are-separate-objects", len({id(g) for g in mine}) == len(mine) and len({id(g.data) for g in mine}) == len(mine))]
            if len(mine) == 3:
                # deleting one of them removes exactly that one
                b.delete(mine[0].id)
                left = b.get(-1)
                obl.append(("delete-removes-exactly-one", len(left) == 3 and And([C.zv(e.id) != C.zv(mine[0].id) for e in left])))
            return obl, [len(allrows)]
        obl = [("inserted-event-listed-once", len(mine) == 1), ("count", len(allrows) == (3 if mode == "bulk" else 2))]
        obs = [len(allrows)]
        if len(mine) == 1:
            g = mine[0]
            if rid is None:
                rid = g.id
            obl.append(("id-assigned", g.id is not None))
            obl.append(("id-unique-in-bucket", And([C.zv(g.id) != C.zv(o.id) for o in allrows if o is not g])))
            obl.append(("listing-same-instant-ms", S.dt_us(g.timestamp) == floor))
            obl.append(("listing-same-duration-us", S.td_us(g.duration) == d))
            obl.append(("listing-equal-data", g.data == keep))
            got = b.get_by_id(rid)
            obl.append(("lookup-returns-it", got is not None))
            if got is not None:
                obl.append(("lookup-same-instant-duration-data", And(S.dt_us(got.timestamp) == floor, S.td_us(got.duration) == d, got.data == keep, C.zv(got.id) == C.zv(g.id))))
            if mode == "single":
                obl.append(("insert-returns-the-id", ret is not None and ret.id is not None and C.zv(ret.id) == C.zv(g.id)))
        return obl, obs
    finally:
        be.close()


def snapshot(ds, bid):
    return [(C.zv(e.id), S.dt_us(e.timestamp), S.td_us(e.duration), deepcopy(e.data)) for e in ds[bid].get(-1)]


def same_snapshot(a, b):
    if len(a) != len(b):
        return False
    return And([And(p[0] == q[0], p[1] == q[1], p[2] == q[2], p[3] == q[3]) for p, q in zip(a, b)])


def h_ownership(x, bk, mode):
    """mutating the caller's event after insert / replace, events handed out by reads, or the metadata
    dict never changes what later reads return"""
    pre = ST.sym_rows(x, "p", 1)
    be = ST.backend(bk)
    ds = be.make(x, {"A": pre, "B": []})
    try:
        new = ST.sym_rows(x, "n", 3, ids=False)
        b = ds["A"]
        data = {"tag": x.wrap(new[0].tag), "nested": {"list": [1, 2]}}
        ev = C.mk_event(x, new[0].start, new[0].dur, data, aligned=False)
        returned = None
        if mode == "insert":
            returned = b.insert(ev)
        elif mode == "bulk":
            b.insert([ev])
        elif mode == "replace":
            b.replace(x.wrap(pre[0].id), ev)
        elif mode == "replace_last":
            b.replace_last(ev)
        first = snapshot(ds, "A")
        meta1 = deepcopy(b.metadata())
        # 1. mutate everything the caller still holds
        ev.data["tag"] = 99
        ev.data["nested"]["list"].append("MUTATED")
        ev.data["added"] = True
        ev.timestamp = x.dt_us(new[1].start)
        ev.duration = x.td_us(new[1].dur)
        ev.id = 424242
        obl = [("caller-mutation-after-%s-does-not-reach-the-store" % mode, same_snapshot(snapshot(ds, "A"), first))]
        if returned is not None:
            # the event handed back by insert is handed out too
            returned.data["tag"] = 55
            returned.data["nested"]["list"].append("MUTATED")
            returned.timestamp = x.dt_us(new[1].start)
            returned.duration = x.td_us(new[1].dur)
            obl.append(("mutating-the-event-returned-by-insert-does-not-reach-the-store", same_snapshot(snapshot(ds, "A"), first)))
        # 2. mutate what reads handed out
        out = b.get(-1)
        for e in out:
            e.data["tag"] = 77
            if "nested" in e.data:
                e.data["nested"]["list"].append("MUTATED")
            e.timestamp = x.dt_us(new[2].start)
            e.duration = x.td_us(new[2].dur)
            e.id = 434343
        one = b.get_by_id(first[0][0] if not S.is_z3(first[0][0]) else x.wrap(first[0][0])) if first else None
        if one is not None:
            one.data["tag"] = 66
            one.data.clear()
        obl.append(("mutating-returned-events-does-not-reach-the-store", same_snapshot(snapshot(ds, "A"), first)))
        # 3. metadata dict
        m = b.metadata()
        m["name"] = "MUTATED"
        m["hostname"] = "MUTATED"
        if isinstance(m.get("data"), dict):
            m["data"]["MUTATED"] = 1
        allb = ds.buckets()
        allb["A"]["type"] = "MUTATED"
        if isinstance(allb["A"].get("data"), dict):
            allb["A"]["data"]["MUTATED2"] = 1
        obl.append(("mutating-returned-metadata-does-not-reach-the-store", b.metadata() == meta1 and ds.buckets()["A"] == meta1))
        return obl, [len(first)]
    finally:
        be.close()


def h_create_ownership(x, bk):
    """the data dict passed to create_bucket / update_bucket stays the caller's"""
    be = ST.backend(bk)
    ds = be.make(x, {"A": []})
    try:
        d = {"k": [1, 2], "n": {"a": 1}}
        ds.create_bucket("C", "t", "c", "h", created=ST.T0, name="n", data=d)
        m1 = deepcopy(ds["C"].metadata())
        d["k"].append("MUTATED")
        d["new"] = 1
        obl = [("create_bucket-data-owned-by-store", ds["C"].metadata() == m1 and m1["data"] == {"k": [1, 2], "n": {"a": 1}})]
        d2 = {"z": [0]}
        ds.update_bucket("C", data=d2)
        m2 = deepcopy(ds["C"].metadata())
        d2["z"].append("MUTATED")
        obl.append(("update_bucket-data-owned-by-store", ds["C"].metadata() == m2 and m2["data"] == {"z": [0]}))
        return obl, []
    finally:
        be.close()


# --------------------------------------------------------------- IEEE lemma
class ieee:
    def __enter__(self):
        fp.IEEE = True

    def __exit__(self, *a):
        fp.IEEE = False


def breakpoints(cap, scale_num, scale_den):
    """integer cut points n in [0, cap] such that inside each piece both n*scale (microseconds) and
    n*scale/10^6 (seconds) stay within one binade: every rounding then has a single candidate exponent"""
    cuts = {0, 1, cap + 1}
    for e in range(-40, 64):
        p = Fraction(2) ** e
        for v in (p * scale_den / scale_num, p * 10**6 * scale_den / scale_num):  # n*scale == 2^e ; n*scale/1e6 == 2^e
            n = int(v) if v == int(v) else int(v) + 1
            if 0 < n <= cap:
                cuts.add(n)
    cuts = sorted(cuts)
    return [(a, b - 1) for a, b in zip(cuts, cuts[1:])]


K_PIECES = breakpoints(U_MAX // 1000, 1000, 1)  # k in milliseconds
D_PIECES = breakpoints(D_MAX, 1, 1)  # d in microseconds


def h_sqlite_ieee(x, kp_lo, kp_hi, dp_lo=0, dp_hi=None, twin=False):
    """the real SqliteStorage.insert_one -> INTEGER-affinity cells -> _rows_to_events pipeline under
    IEEE double rounding: for every millisecond instant k*1 ms and every duration d us in the chosen
    pieces the event read back has instant k ms exactly (after the Event ms floor) and duration d"""
    dp_hi = len(D_PIECES) - 1 if dp_hi is None else dp_hi
    kp = kp_lo + x.choice("k_piece", kp_hi - kp_lo + 1)
    dp = dp_lo + x.choice("d_piece", dp_hi - dp_lo + 1)
    klo, khi = K_PIECES[kp]
    dlo, dhi = D_PIECES[dp]
    k = x.zint("k", klo, khi)
    d = x.zint("d", dlo, dhi)
    be = ST.backend("sqlite")
    ds = be.make(x, {"A": []})
    try:
        b = ds["A"]
        if x.sym:
            fp.declare_bounds("k", klo, khi)
            fp.declare_bounds("d", dlo, dhi)
            ev = C.mk_event(x, k * 1000, d, {"tag": 1}, aligned=True)  # Event normalisation under IEEE is C13's lemma
            with ieee():
                b.insert(ev)
                got = b.get(-1)
        else:
            ev = C.mk_event(x, k * 1000, d, {"tag": 1}, aligned=True)
            b.insert(ev)
            got = b.get(-1)
        obl = [("one-event", len(got) == 1)]
        if len(got) == 1:
            g = got[0]
            if twin:
                obl.append(("twin-duration-off-by-one-refuted", S.td_us(g.duration) == d + 1))
            else:
                obl.append(("ieee-instant-exact-to-ms", S.dt_us(g.timestamp) == k * 1000))
                obl.append(("ieee-duration-exact-to-us", S.td_us(g.duration) == d))
        return obl, [S.dt_us(got[0].timestamp) if got else None]
    finally:
        be.close()


def harnesses(tier):
    ST.install_common()
    ST.install_sqlite()
    ST.install_peewee()
    hs = []
    for bk in ["memory", "sqlite", "peewee"]:
        for mode in ("single", "bulk"):
            hs.append((Harness(PROP, "%s-fidelity-%s-recreated-bucket" % (bk, mode), h_fidelity, dict(bk=bk, mode=mode, recreated=True), "%s: %s insertion into a bucket id that was populated, deleted and created again on the same store object" % (bk, mode)), 900))
        for mode in ("single", "bulk1", "bulk", "bulk_same_object"):
            hs.append((Harness(PROP, "%s-fidelity-%s" % (bk, mode), h_fidelity, dict(bk=bk, mode=mode), "%s: %s insertion of an event with arbitrary microsecond instant, UTC offset, duration and pooled JSON data; get / get_by_id return it" % (bk, mode)), 900))
        for mode in ("insert", "bulk", "replace", "replace_last"):
            hs.append((Harness(PROP, "%s-ownership-%s" % (bk, mode), h_ownership, dict(bk=bk, mode=mode), "%s: mutation of the caller's event after %s, of events handed out and of metadata dicts" % (bk, mode)), 900))
        hs.append((Harness(PROP, "%s-bucket-data-ownership" % bk, h_create_ownership, dict(bk=bk), "%s: data dict passed to create/update bucket" % bk), 300))
    recent = [i for i, (a, b) in enumerate(K_PIECES) if b >= 946684800000]  # 2000 .. 2099
    if tier == "quick":
        hs.append((Harness(PROP, "sqlite-ieee-2000..2099", h_sqlite_ieee, dict(kp_lo=recent[0], kp_hi=len(K_PIECES) - 1), "sqlite store/load pipeline under IEEE rounding: instants 2000 .. 2099 (%d range pieces) x all %d duration pieces" % (len(recent), len(D_PIECES)), split_depth=5, fresh_solver=True, cross_solver=1), 3000))
    else:
        hs.append((Harness(PROP, "sqlite-ieee-1970..2099", h_sqlite_ieee, dict(kp_lo=0, kp_hi=len(K_PIECES) - 1), "sqlite store/load pipeline under IEEE rounding: all instants 1970 .. 2099 (%d range pieces) x all %d duration pieces" % (len(K_PIECES), len(D_PIECES)), split_depth=7, fresh_solver=True), 14000))
    return hs


def meta(chk, tier):
    chk.functions = C.source_files("aw_datastore/datastore.py", "aw_datastore/storages/memory.py", "aw_datastore/storages/sqlite.py", "aw_core/models.py")
    chk.functions.append(dict(functions=["Bucket.insert/get/get_by_id/metadata/replace/replace_last", "Datastore.create_bucket/update_bucket/buckets", "MemoryStorage.*", "SqliteStorage.insert_one/insert_many/_rows_to_events/get_event(s)/get_metadata"]))
    chk.bounds = [
        "fidelity (exact arithmetic): instant any integer microsecond 1970..2099 with a symbolic UTC offset (whole minutes), duration any integer us in [0, 30 d], data from a pool of %d JSON documents (nested, unicode, quotes, floats, null); single and bulk insertion; one pre-existing event" % len(DATA_POOL),
        "ownership: every alias the API hands over or back is mutated (data incl. nested containers, timestamp, duration, id; metadata dicts and their data)",
        "IEEE lemma (sqlite): k*1 ms instants and d us durations, one query set per (range piece of k, range piece of d) — pieces chosen so that microsecond and second values stay within one binade: %s" % ("instants 2000..2099 x all duration pieces" if tier == "quick" else "all pieces 1970..2099 x 0..30 d"),
    ]
    chk.stubs = ["as C02; real json runs on the pooled documents", "IEEE mode: int/int division, float * and +, INTEGER-affinity cells keep the double, fromtimestamp = modf + one rounded product + round-to-nearest (symex.fp)"]
    chk.assumptions = ["json round trip of concrete documents is stdlib (executed, trusted)", "IEEE encoding lets an exact tie round either way (over-approximation); candidates are re-sampled (blocking clauses, up to 12 models) until one reproduces natively — this is how the post-2038 duration defect of the former float pipeline was found; since the fix the pipeline uses integers and the lemma is exact for all dates", "peewee: exact-arithmetic fidelity and ownership are covered here; its float chain total_seconds() -> REAL -> Decimal(str) -> float -> timedelta(seconds=) is C13's json-duration lemma, and its TEXT timestamps round-trip through iso8601 (contract stub)"]


def post(chk, tier):
    mid = len(K_PIECES) - 4
    h = Harness(PROP, "sqlite-ieee-twin", h_sqlite_ieee, dict(kp_lo=mid, kp_hi=mid, dp_lo=len(D_PIECES) // 2, dp_hi=len(D_PIECES) // 2 + 3, twin=True), "sensitivity twin: duration off by one must be refuted", split_depth=4, fresh_solver=True)
    r = C.run_harness(h, budget_s=900, seed=chk.seed)
    ok = len(r.cex) > 0 and not r.errors
    chk.vacuity.append(dict(twin="sqlite IEEE pipeline with obligation duration == d+1", refuted_on_paths=len(r.cex), ok=ok))
    if not ok:
        chk.harness_errors.append("sensitivity twin not refuted: %s" % (r.errors[:1],))
    chk.lemmas.append(dict(fp=dict(fp.STATS)))


def main(tier, seed, args):
    return C.run_check(sys.modules[__name__], tier, seed, args)
