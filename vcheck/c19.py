"""C19 — annotating transforms add their keys and leave everything else alone."""
import json
import re as real_re
import sys
from copy import deepcopy
from urllib.parse import urlparse

from symex import shadows as S
from symex.engine import Unsupported
from symex.shadows import And, Or, Not, Implies, Iff
from . import common as C
from .common import Harness, mk_event, ev_start, ev_dur

import aw_core.models as M
import aw_transform.classify  # noqa
import aw_transform.split_url_events  # noqa
import aw_transform.simplify  # noqa

CL = sys.modules["aw_transform.classify"]
SU = sys.modules["aw_transform.split_url_events"]
SI = sys.modules["aw_transform.simplify"]

PROP = "C19"
T_MAX_MS = 4_200_000_000_000
D_MAX_US = 10**13


class Pat:
    def __init__(self, owner, pattern, flags):
        self.owner, self.pattern, self.flags = owner, pattern, flags

    def search(self, val):
        if not isinstance(val, str):
            raise TypeError("expected string or bytes-like object, got %r" % type(val).__name__)
        key = (self.pattern, bool(self.flags & real_re.IGNORECASE), val)
        if key not in self.owner.table:
            # a value the harness did not anticipate: still an arbitrary boolean (declared on the fly)
            self.owner.table[key] = self.owner.x.zbool("m_dyn|%s|%s|%s" % (self.pattern, int(key[1]), json.dumps(val)))
        b = self.owner.table[key]
        return S.SBool(b) if S.is_z3(b) else b

    def __getattr__(self, name):
        raise Unsupported("regex method %s is not modelled" % name)


class ReStub:
    """stands for the module ``re`` inside aw_transform.classify: compile() records pattern and
    flags, search() answers an arbitrary (symbolic) boolean per (pattern, value)"""

    IGNORECASE = real_re.IGNORECASE
    UNICODE = real_re.UNICODE

    def __init__(self, x):
        self.x = x
        self.table = {}
        self.compiled = []

    def compile(self, pattern, flags=0):
        p = Pat(self, pattern, flags)
        self.compiled.append(p)
        return p


SELECTS = [None, ["title"], ["missing"], ["num"], ["title", "app"]]


def h_classify(x, n, r, vary, share=False):
    """vary: set of aspects explored symbolically per rule: depth, select, regex, icase"""
    stub = ReStub(x)
    if x.sym:
        C.stub(CL, "re", stub)
    # events
    T, D, evs, vals = [], [], [], []
    for i in range(n):
        k = x.zint("k%d" % i, 0, T_MAX_MS)
        d = x.zint("d%d" % i, 0, D_MAX_US)
        T.append(k * 1000)
        D.append(d)
        data = {"title": "<T%d ä>" % i, "app": "<A%d>" % i, "num": 5, "nested": {"k": ["v"]}}
        vals.append(data)
        evs.append(mk_event(x, T[i], D[i], dict(data), id=100 + i, aligned=False))
    # rules
    rules = []
    shared = {}
    for q in range(r):
        depth = 1 + x.choice("depth%d" % q, 3) if "depth" in vary else 1 + (q % 3)
        sel = SELECTS[x.choice("sel%d" % q, len(SELECTS))] if "select" in vary else None
        nonempty = x.flag("regex%d" % q) if "regex" in vary else True
        icase = x.flag("icase%d" % q) if "icase" in vary else False
        m = {}
        for i in range(n):
            for key in ("title", "app"):
                if share:
                    if ("cs", i, key) not in shared:
                        shared[("cs", i, key)] = x.zbool("m_shared_cs_e%d_%s" % (i, key))
                        shared[("ci", i, key)] = x.zbool("m_shared_ci_e%d_%s" % (i, key))
                        x.assume(S.Implies(shared[("cs", i, key)], shared[("ci", i, key)]))  # a case-sensitive hit is a case-insensitive hit
                    m[(i, key)] = shared[("ci" if icase else "cs", i, key)]
                else:
                    m[(i, key)] = x.zbool("m_r%d_e%d_%s" % (q, i, key))
        if x.sym:
            pattern = (("P%d" % q) if not share else "PSHARED") if nonempty else ""
            for (i, key), b in list(m.items()):
                tkey = (pattern, bool(icase), vals[i][key])
                if tkey in stub.table:
                    m[(i, key)] = stub.table[tkey]  # same regex text and flags as an earlier rule: same outcome
                else:
                    stub.table[tkey] = b
        elif share:
            # one regex text for every rule: exact value where the case-sensitive search hits, swapped case
            # where only the case-insensitive search hits
            alts = []
            for i in range(n):
                for key in ("title", "app"):
                    if shared[("cs", i, key)]:
                        alts.append(real_re.escape(vals[i][key]))
                    elif shared[("ci", i, key)]:
                        alts.append(real_re.escape(vals[i][key].swapcase()))
            pattern = ("|".join(alts) if alts else "(?!)") if nonempty else ""
        else:
            alts = [real_re.escape(vals[i][key].swapcase() if icase else vals[i][key]) for (i, key), b in m.items() if b]
            for nm, b in x.values.items():
                if nm.startswith("m_dyn|P%d|" % q) and b:
                    v = json.loads(nm.split("|", 3)[3])
                    alts.append("^%s$" % real_re.escape(v.swapcase() if icase else v))
            pattern = ("|".join(alts) if alts else "(?!)") if nonempty else ""
        rd = {"regex": pattern}
        if icase or "icase" in vary:
            rd["ignore_case"] = icase
        if sel is not None:
            rd["select_keys"] = list(sel)
        cat = ["c%d" % q] + ["sub"] * (depth - 1)
        rules.append(dict(depth=depth, sel=sel, nonempty=nonempty, icase=icase, m=m, cat=cat, tag="tag%d" % q, rule=CL.Rule(rd)))

    def matches(q, i):
        ru = rules[q]
        if not ru["nonempty"]:
            return False
        keys = ru["sel"] if ru["sel"] else ["title", "app", "num", "nested"]
        return Or([ru["m"][(i, key)] for key in keys if key in ("title", "app")])

    obl = []
    # flags passed to the regex engine
    if x.sym:
        for q, ru in enumerate(rules):
            rx = ru["rule"].regex
            if ru["nonempty"]:
                # the pattern object this very rule searches with carries IGNORECASE iff the rule asked for it
                obl.append(("ignorecase-passed-iff-asked-r%d" % q, isinstance(rx, Pat) and bool(rx.flags & real_re.IGNORECASE) == ru["icase"]))
            else:
                obl.append(("empty-regex-not-compiled-r%d" % q, rx is None and all(p.pattern != "" for p in stub.compiled)))
    else:
        for q, ru in enumerate(rules):
            obl.append((("ignorecase-passed-iff-asked-r%d" if ru["nonempty"] else "empty-regex-not-compiled-r%d") % q, True))

    ev_c = deepcopy(evs)
    out_c = CL.categorize(ev_c, [(ru["cat"], ru["rule"]) for ru in rules])
    ev_t = deepcopy(evs)
    out_t = CL.tag(ev_t, [(ru["tag"], ru["rule"]) for ru in rules])
    for name, out, added in (("categorize", out_c, "$category"), ("tag", out_t, "$tags")):
        obl.append(("%s-same-count" % name, len(out) == n))
        for i, o in enumerate(out[:n]):
            rest = {k: v for k, v in o.data.items() if k != added}
            obl.append(("%s-frame-e%d" % (name, i), And(ev_start(o) == T[i], ev_dur(o) == D[i], o.id == 100 + i, rest == vals[i], added in o.data)))
    for i in range(min(n, len(out_c))):
        got = out_c[i].data.get("$category")
        winners = [q for q in range(r) if got == rules[q]["cat"]]
        if got == ["Uncategorized"]:
            obl.append(("uncategorized-only-if-nothing-matches-e%d" % i, And([Not(matches(q, i)) for q in range(r)])))
        elif len(winners) != 1:
            obl.append(("category-is-a-rule-category-e%d" % i, False))
        else:
            w = winners[0]
            dw = rules[w]["depth"]
            conds = [matches(w, i)]
            for q in range(r):
                if q == w:
                    continue
                dq = rules[q]["depth"]
                beaten = dq < dw or (dq == dw and q < w)
                if not beaten:
                    conds.append(Not(matches(q, i)))
            obl.append(("category-is-deepest-match-later-wins-e%d" % i, And(conds)))
    for i in range(min(n, len(out_t))):
        got = out_t[i].data.get("$tags")
        ok_shape = isinstance(got, list) and all(g in [ru["tag"] for ru in rules] for g in got) and got == sorted(set(got), key=lambda g: int(g[3:]))
        obl.append(("tags-are-rule-tags-in-rule-order-e%d" % i, ok_shape))
        if ok_shape:
            obl.append(("tags-exactly-the-matching-e%d" % i, And([Iff(rules[q]["tag"] in got, matches(q, i)) for q in range(r)])))
    obs = [[o.data.get("$category") for o in out_c], [o.data.get("$tags") for o in out_t]]
    return obl, obs


URLS = ["http://www.example.com/a/b;p?x=1#frag", "https://sub.domain.org:8080/", "ftp://wwwx.example.com", "notaurl", "", "https://www./?q=%C3%A4#"]
TITLES = ["(2) Facebook", "(12)  YouTube", "Cemu - FPS: 59.2 - game", "● report.md - VS Code", "* test.md - gedit", "plain", "(x) not a count", ""]


def h_frame(x, n, which):
    T, D, evs, datas = [], [], [], []
    for i in range(n):
        k = x.zint("k%d" % i, 0, T_MAX_MS)
        d = x.zint("d%d" % i, 0, D_MAX_US)
        T.append(k * 1000)
        D.append(d)
        if which == "split_url_events":
            u = x.choice("url%d" % i, len(URLS) + 1)
            data = {"other": [i], "title": "t"}
            if u < len(URLS):
                data["url"] = URLS[u]
        else:
            t = x.choice("title%d" % i, len(TITLES))
            data = {"other": [i], "title": TITLES[t]}
            if x.flag("app%d" % i):
                data["app"] = "A"
        datas.append(data)
        evs.append(mk_event(x, T[i], D[i], deepcopy(data), id=100 + i, aligned=False))
    work = deepcopy(evs)
    if which == "split_url_events":
        out = SU.split_url_events(work)
        added = {"$protocol", "$domain", "$path", "$params", "$options", "$identifier"}
    elif which == "simplify_string_other_key":
        for w_, d_ in zip(work, datas):
            w_.data["label"] = d_["label"] = "(3) " + d_["title"]
        out = SI.simplify_string(work, "label")
        added = {"label"}
    else:
        out = SI.simplify_string(work, "title")
        added = {"title"}
    obl = [("same-count", len(out) == n)]
    for i, o in enumerate(out[:n]):
        rest = {k: v for k, v in o.data.items() if k not in added}
        want_rest = {k: v for k, v in datas[i].items() if k not in added}
        obl.append(("frame-e%d" % i, And(ev_start(o) == T[i], ev_dur(o) == D[i], o.id == 100 + i, rest == want_rest)))
        if which == "split_url_events":
            if "url" in datas[i]:
                pu = urlparse(datas[i]["url"])
                dom = pu.netloc[4:] if pu.netloc.startswith("www.") else pu.netloc
                want = {"$protocol": pu.scheme, "$domain": dom, "$path": pu.path, "$params": pu.params, "$options": pu.query, "$identifier": pu.fragment}
                obl.append(("url-parts-e%d" % i, {k: o.data.get(k) for k in added} == want))
            else:
                obl.append(("no-url-no-keys-e%d" % i, not (added & set(o.data))))
        else:
            k_ = "label" if which == "simplify_string_other_key" else "title"
            obl.append(("title-still-a-string-e%d" % i, isinstance(o.data.get(k_), str) and len(o.data[k_]) <= len(datas[i][k_]) + 3))
    if which.startswith("simplify_string"):
        obl.append(("input-not-modified", all(w.data == d for w, d in zip(work, datas))))
    return obl, [len(out)]


def harnesses(tier):
    C.stub(M, "int", S.sym_int)
    hs = []
    if tier == "quick":
        spec = [(1, 3, ("depth",), 300), (1, 2, ("select", "regex", "icase"), 300), (2, 2, ("depth",), 300)]
    else:
        spec = [(1, 3, ("depth",), 300), (1, 4, ("depth",), 1800), (1, 2, ("select", "regex", "icase"), 300), (1, 2, ("depth", "select", "regex", "icase"), 1800),
                (1, 3, ("depth", "select"), 1800), (2, 2, ("depth", "select"), 1800), (2, 3, ("depth",), 1800)]
    for n, r, vary, budget in spec:
        hs.append((Harness(PROP, "classify-n%d-r%d-%s" % (n, r, "+".join(vary)), h_classify, dict(n=n, r=r, vary=vary),
                           "categorize + tag, %d events, %d rules, symbolic %s, regex engine stubbed by an arbitrary boolean per (pattern, value)" % (n, r, ",".join(vary)), split_depth=8), budget))
    hs.append((Harness(PROP, "classify-n1-r2-shared-pattern-icase", h_classify, dict(n=1, r=2, vary=("icase", "depth"), share=True), "two rules with the SAME regex text and independent ignore_case flags", split_depth=8), 600))
    for which in ("split_url_events", "simplify_string", "simplify_string_other_key"):
        hs.append((Harness(PROP, "%s-frame-n2" % which, h_frame, dict(n=2, which=which), "%s: count, order, instants, durations, ids and unrelated keys preserved (concrete URL/title pool)" % which), 300))
    return hs


def meta(chk, tier):
    chk.functions = C.source_files("aw_transform/classify.py", "aw_transform/split_url_events.py", "aw_transform/simplify.py", "aw_core/models.py")
    chk.functions.append(dict(functions=["Rule.__init__", "Rule.match", "categorize", "tag", "_categorize_one", "_tag_one", "_pick_category", "_pick_deepest_cat", "split_url_events", "simplify_string"]))
    chk.bounds = [
        "events N<=2, rules R<=3 (quick), R<=4 (thorough); category depth 1..3 symbolic per rule; select_keys in {absent, ['title'], ['missing'], ['num'], ['title','app']}; regex empty / non-empty; ignore_case on/off",
        "regex search outcome: one unconstrained boolean per (rule, event, string value)",
        "instants multiples of 1 ms in [1970, ~2103], durations integer microseconds in [0, 1e13]",
        "split_url_events / simplify_string: pool of %d URLs / %d titles, 2 events" % (len(URLS), len(TITLES)),
    ]
    chk.stubs = ["aw_transform.classify.re -> ReStub (compile records flags; search returns an arbitrary boolean per (pattern, value)); native validation builds real regexes that realise the model's booleans",
                 "aw_core.models.int -> sym_int"]
    chk.assumptions = ["what a given regular expression matches is outside the claim (C regex engine); only the rule logic around it is decided",
                       "split_url_events / simplify_string: only the frame (count, order, instants, durations, ids, unrelated keys) and the urlparse field mapping are asserted"]


def main(tier, seed, args):
    return C.run_check(sys.modules[__name__], tier, seed, args)
