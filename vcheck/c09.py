"""C09 — filter_period_intersect and period_union are exact."""
import sys

from symex import shadows as S
from symex.shadows import And, Or, Not, Implies, If, Sum
from . import common as C
from .common import Harness, mk_event, ev_start, ev_dur, ev_end

import aw_core.models as M
import aw_transform.filter_period_intersect  # noqa

FPI = sys.modules["aw_transform.filter_period_intersect"]

PROP = "C09"
T_MAX_MS = 4_200_000_000_000
D_MAX_MS = 10**10


def install():
    C.stub(M, "int", S.sym_int)
    C.shadow_module(FPI)


def mklist(x, pfx, n, nonoverlap, ordered=False, dmin=0, dmax=D_MAX_MS, us=False):
    T, D = [], []
    for i in range(n):
        k = x.zint("%sk%d" % (pfx, i), 0, T_MAX_MS)
        m = x.ranged("%sm%d" % (pfx, i), dmin, dmax)
        T.append(k * 1000)
        D.append(m * 1000 + (x.zint("%su%d" % (pfx, i), 0, 999) if us else 0))
    for i in range(n):
        for j in range(i + 1, n):
            if nonoverlap:
                x.assume(Or(T[i] + D[i] <= T[j], T[j] + D[j] <= T[i]))
            if ordered:
                x.assume(T[i] <= T[j])
    evs = [mk_event(x, T[i], D[i], {"uid": "%s%d" % (pfx, i), "extra": [1, {"n": None}]}, id="%s-id-%d" % (pfx, i), dur_aligned=not us) for i in range(n)]
    return evs, T, D


def unmodified(evs, T, D, pfx, orig):
    return And([len(evs) == len(T)] + [
        And(evs[i] is orig[i], ev_start(evs[i]) == T[i], ev_dur(evs[i]) == D[i], evs[i].data == {"uid": "%s%d" % (pfx, i), "extra": [1, {"n": None}]}, evs[i].id == "%s-id-%d" % (pfx, i))
        for i in range(min(len(T), len(evs)))
    ])


def zmin(a, b):
    return If(a <= b, a, b)


def zmax(a, b):
    return If(a >= b, a, b)


def h_fpi(x, n1, n2, ordered=False, twin=False):
    A, TA, DA = mklist(x, "a", n1, True, ordered)
    B, TB, DB = mklist(x, "b", n2, True, ordered)
    origA, origB = list(A), list(B)
    out = FPI.filter_period_intersect(A, B)
    if twin:
        return [("reached-len%d" % len(out), False)], [len(out)]
    t = x.zint("tq")
    obl = []
    So = [ev_start(o) for o in out]
    Eo = [ev_end(o) for o in out]
    for i in range(n1):
        mine = [k for k, o in enumerate(out) if o.data.get("uid") == "a%d" % i]
        cnt = Sum([If(And(So[k] <= t, t < Eo[k]), 1, 0) for k in mine])
        want = If(And(TA[i] <= t, t < TA[i] + DA[i], Or([And(TB[j] <= t, t < TB[j] + DB[j]) for j in range(n2)])), 1, 0)
        obl.append(("exactly-once-a%d" % i, cnt == want))
        for k in mine:
            obl.append(("piece-inside-event-a%d" % i, And(TA[i] <= So[k], Eo[k] <= TA[i] + DA[i], Eo[k] >= So[k])))
            obl.append(("piece-inside-some-filter-a%d" % i, Implies(Eo[k] > So[k], Or([And(TB[j] <= So[k], Eo[k] <= TB[j] + DB[j]) for j in range(n2)]))))
            obl.append(("piece-keeps-data-and-id-a%d" % i, out[k].data == {"uid": "a%d" % i, "extra": [1, {"n": None}]} and out[k].id == "a-id-%d" % i))
            obl.append(("piece-is-a-copy-a%d" % i, all(out[k] is not e for e in origA) and out[k].data is not origA[i].data and out[k].data["extra"] is not origA[i].data["extra"]))
    obl.append(("only-pieces-of-events", all(o.data.get("uid") in ["a%d" % i for i in range(n1)] for o in out)))
    total = Sum([ev_dur(o) for o in out])
    want_total = Sum([zmax(0, zmin(TA[i] + DA[i], TB[j] + DB[j]) - zmax(TA[i], TB[j])) for i in range(n1) for j in range(n2)])
    obl.append(("total-duration-is-common-measure", total == want_total))
    obl.append(("events-list-unmodified", unmodified(A, TA, DA, "a", origA)))
    obl.append(("filter-list-unmodified", unmodified(B, TB, DB, "b", origB)))
    obs = [len(out)] + [[o.data.get("uid"), So[k], Eo[k]] for k, o in enumerate(out)]
    return obl, obs


def h_union(x, n1, n2, twin=False):
    A, TA, DA = mklist(x, "a", n1, False)
    B, TB, DB = mklist(x, "b", n2, False)
    out = FPI.period_union(A, B)
    if twin:
        return [("reached-len%d" % len(out), False)], [len(out)]
    So = [ev_start(o) for o in out]
    Eo = [ev_end(o) for o in out]
    t = x.zint("tq")
    ins = list(zip(TA, DA)) + list(zip(TB, DB))
    inn = Or([And(T <= t, t <= T + D) for T, D in ins])
    outc = Or([And(So[k] <= t, t <= Eo[k]) for k in range(len(out))])
    obl = [
        ("union-covers-exactly-the-inputs", S.Iff(inn, outc)),
        ("sorted-with-strictly-positive-gaps", And([Eo[k] < So[k + 1] for k in range(len(out) - 1)])),
        ("non-negative-lengths", And([Eo[k] >= So[k] for k in range(len(out))])),
        ("data-less", all(o.data == {} for o in out)),
        ("empty-iff-no-input", (len(out) == 0) == (n1 + n2 == 0)),
    ]
    obs = [len(out)] + [[So[k], Eo[k]] for k in range(len(out))]
    return obl, obs


def harnesses(tier):
    install()
    hs = []
    if tier == "quick":
        fpi = [(1, 1, False, 60), (2, 1, False, 60), (1, 2, False, 60), (2, 2, False, 300)]
        un = [(1, 0, 30), (2, 0, 60), (0, 2, 60), (3, 0, 120), (1, 1, 60), (2, 1, 120), (2, 2, 300)]
    else:
        fpi = [(1, 1, False, 60), (2, 2, False, 300), (3, 2, False, 1800), (2, 3, False, 1800), (3, 3, True, 1800), (4, 2, True, 1800), (2, 4, True, 1800)]
        un = [(1, 0, 30), (2, 0, 60), (0, 2, 60), (3, 0, 120), (0, 4, 600), (1, 1, 60), (2, 2, 300), (3, 2, 1800), (3, 3, 3600)]
    for n1, n2, ordered, budget in fpi:
        hs.append((Harness(PROP, "intersect-%d+%d-%s" % (n1, n2, "sorted" if ordered else "anyorder"), h_fpi, dict(n1=n1, n2=n2, ordered=ordered),
                           "filter_period_intersect, %d events x %d filter events" % (n1, n2), split_depth=7), budget))
    # float-semantics variants: whatever float arithmetic the code performs on instants / durations follows IEEE
    # double rounding (the current code performs none: these are there for the day it does)
    hs.append((Harness(PROP, "intersect-1+1-float-semantics", C.with_floats(h_fpi), dict(n1=1, n2=1), "filter_period_intersect 1x1 with IEEE double semantics for any float arithmetic, durations < 2^17 ms in binary range pieces", split_depth=7, fresh_solver=True), 600))
    hs.append((Harness(PROP, "union-1+1-float-semantics", C.with_floats(h_union), dict(n1=1, n2=1), "period_union 1+1 with IEEE double semantics for any float arithmetic, durations < 2^17 ms in binary range pieces", split_depth=7, fresh_solver=True), 600))
    for n1, n2, budget in un:
        hs.append((Harness(PROP, "union-%d+%d" % (n1, n2), h_union, dict(n1=n1, n2=n2), "period_union of arbitrary lists (%d, %d events), any order" % (n1, n2), split_depth=7), budget))
    return hs


def meta(chk, tier):
    chk.functions = C.source_files("aw_transform/filter_period_intersect.py", "aw_core/models.py", "/venv/lib/python3.12/site-packages/timeslot/timeslot.py")
    chk.functions.append(dict(functions=["filter_period_intersect", "_intersecting_eventpairs", "_replace_event_period", "_get_event_period", "period_union", "timeslot.Timeslot.intersection/contains/gap/union/duration", "aw_core.models.Event"]))
    chk.bounds = [
        "intersection: |events| x |filter| up to 2x2 in any input order (quick); 3x2, 2x3 any order and 3x3, 4x2, 2x4 pre-sorted (thorough)",
        "union: up to 2+2 events (quick), 3+3 (thorough), arbitrary order and overlap",
        "timestamps any multiple of 1 ms in [1970, ~2103]; durations any multiple of 1 ms in [0, 1e10 ms] (zero-length included)",
        "query point t: unconstrained integer microsecond",
    ]
    chk.stubs = ["aw_core.models.int -> sym_int", "logging disabled"]
    chk.assumptions = [
        "millisecond granularity (property's stated domain)",
        "intersection inputs internally non-overlapping (touching allowed), as the property's quantifier says",
        "total duration of the union equals the covered measure follows from exact point-wise cover + strictly positive gaps and is not asserted separately",
    ]


def post(chk, tier):
    h = Harness(PROP, "reach-twin-intersect-2+2", h_fpi, dict(n1=2, n2=2, ordered=False, twin=True), "reachability twin")
    r = C.run_harness(h, budget_s=120, seed=chk.seed)
    names = sorted({c["obligation"] for c in r.cex})
    ok = set(names) >= {"reached-len0", "reached-len1", "reached-len2", "reached-len3"}
    chk.vacuity.append(dict(twin="intersect-2+2 with obligation False", reached=names, ok=ok))
    if not ok:
        chk.harness_errors.append("vacuity: reachability twin reached only %s" % names)


def main(tier, seed, args):
    return C.run_check(sys.modules[__name__], tier, seed, args)
