"""C05 — bucket lifecycle: create, list, describe, update, delete behave as a keyed map."""
import sys
from copy import deepcopy
from datetime import datetime, timedelta, timezone

import iso8601

from symex import shadows as S
from symex.shadows import And, Or, Not, If, Sum
from . import common as C
from .common import Harness
from . import store as ST
from .store import Row, same_rows_as_sets, row_of_event

PROP = "C05"
BIDS = ["b-one", "bücket \"2\""]
CREATED = [datetime(2020, 1, 2, 3, 4, 5, 678000, tzinfo=timezone.utc), datetime(1999, 12, 31, 23, 59, 59, tzinfo=timezone(timedelta(hours=5, minutes=30)))]
METAS = [
    dict(type="type-α", client="client 'q'", hostname="host-1", name="Name One", data={"k": [1, {"n": None}], "ü": "x"}),
    # texts that look like numbers (integer with leading zeros, exponent form, decimal): they must come back as given
    dict(type="007", client="1e3", hostname="0042", name=None, data=None),
]
UPDATES = [dict(type_id="new-type"), dict(client="new-client", hostname="20210304"), dict(name="1.50"), dict(data={"changed": [True]}), dict(type_id="T", client="C", hostname="H", name="N", data={"all": 1})]
OPS = ["create", "update", "delete", "lookup", "describe", "insert_event", "read_events"]


def listing(ds):
    out = {}
    for bid, m in ds.buckets().items():
        out[bid] = dict(id=m["id"], type=m["type"], client=m["client"], hostname=m["hostname"], created=iso8601.parse_date(m["created"]), name=m.get("name"), data=m.get("data"))
    return out


def scribble(obj):
    """mutate a returned / passed structure in place at every depth"""
    if isinstance(obj, dict):
        for k in list(obj):
            if isinstance(obj[k], (dict, list)):
                scribble(obj[k])
            else:
                obj[k] = "scribbled"
        obj["scribble"] = 1
    elif isinstance(obj, list):
        for i, v in enumerate(obj):
            if isinstance(v, (dict, list)):
                scribble(v)
            else:
                obj[i] = "scribbled"
        obj.append("scribble")


def matches(actual, ref):
    """listing equals the reference map (name only compared when it was given)"""
    if set(actual) != set(ref):
        return False
    for bid, r in ref.items():
        a = actual[bid]
        for k in ("id", "type", "client", "hostname", "created", "data"):
            if a[k] != r[k]:
                return False
        if r["name"] is not None and a["name"] != r["name"]:
            return False
    return True


def h_history(x, bk, L):
    be = ST.backend(bk)
    ds = be.make(x, {})
    try:
        ref = {}  # bucket id -> metadata
        refev = {}  # bucket id -> list of Row contents inserted (no ids)
        obl = []
        trace = []
        nev = 0
        for step in range(L):
            op = OPS[x.choice("op%d" % step, len(OPS))]
            bid = BIDS[x.choice("bid%d" % step, len(BIDS))]
            exists = bid in ref
            before_tab = be.table_rows(ds)
            before_list = listing(ds)
            raised = None
            try:
                if op == "create":
                    if exists:
                        x.assume(False)  # creating an existing id: the property is silent, backends differ
                    mi = x.choice("meta%d" % step, len(METAS))
                    ci = x.choice("created%d" % step, len(CREATED))
                    m = METAS[mi]
                    given = deepcopy(m["data"])
                    b = ds.create_bucket(bid, m["type"], m["client"], m["hostname"], created=CREATED[ci], name=m["name"], data=given)
                    scribble(given)  # the caller's object is the caller's: changing it later must not reach the store
                    ref[bid] = dict(id=bid, type=m["type"], client=m["client"], hostname=m["hostname"], created=CREATED[ci], name=m["name"], data=deepcopy(m["data"]) or {})
                    refev[bid] = []
                    obl.append(("created-bucket-starts-empty-step%d" % step, b.get(-1) == [] and b.get_eventcount() == 0))
                elif op == "update":
                    ui = x.choice("upd%d" % step, len(UPDATES))
                    u = UPDATES[ui]
                    given = deepcopy(u)
                    ds.update_bucket(bid, **given)
                    scribble(given.get("data"))
                    if exists:
                        for k, v in u.items():
                            ref[bid]["type" if k == "type_id" else k] = deepcopy(v)
                elif op == "delete":
                    ds.delete_bucket(bid)
                    if exists:
                        del ref[bid]
                        del refev[bid]
                elif op == "lookup":
                    ds[bid]
                elif op == "describe":
                    got = ds.storage_strategy.get_metadata(bid) if not exists else ds[bid].metadata()
                    if exists:
                        obl.append(("describe-equals-listing-step%d" % step, matches({bid: dict(id=got["id"], type=got["type"], client=got["client"], hostname=got["hostname"], created=iso8601.parse_date(got["created"]), name=got.get("name"), data=got.get("data"))}, {bid: ref[bid]})))
                        # what was handed out is the caller's: scribbling over it (at every depth) changes nothing stored
                        scribble(got)
                        for m_ in ds.buckets().values():
                            scribble(m_)
                elif op == "insert_event":
                    if not exists:
                        x.assume(False)  # event writes to missing buckets are other properties' business
                    r = ST.sym_rows(x, "e%d" % step, 1, ids=False)[0]
                    ds[bid].insert(ST.event_of_row(x, r))
                    refev[bid].append(r)
                elif op == "read_events":
                    if not exists:
                        x.assume(False)
                    got = [row_of_event(e) for e in ds[bid].get(-1)]
                    want = refev[bid]
                    obl.append(("bucket-holds-exactly-its-own-events-step%d" % step, len(got) == len(want) and And([Sum([If(g.same_content(w), 1, 0) for g in got]) >= 1 for w in want])))
            except KeyError as e:
                raised = "KeyError"
            except ValueError as e:
                raised = "ValueError"
            trace.append([op, bid, raised])
            if op in ("update", "delete", "lookup", "describe") and not exists:
                want_exc = "KeyError" if op == "lookup" else "ValueError"
                obl.append(("missing-bucket-%s-raises-%s-step%d" % (op, want_exc, step), raised == want_exc))
                # ... and changes nothing
                after_tab = be.table_rows(ds)
                same = set(after_tab) == set(before_tab) and all(same_rows_as_sets(after_tab[k], before_tab[k]) is not False for k in before_tab)
                obl.append(("missing-bucket-%s-changes-nothing-step%d" % (op, step), same and listing(ds) == before_list))
                if same:
                    obl.append(("missing-bucket-%s-rows-unchanged-step%d" % (op, step), And([same_rows_as_sets(after_tab[k], before_tab[k]) for k in before_tab])))
            else:
                obl.append(("no-exception-on-existing-bucket-step%d" % step, raised is None))
            obl.append(("listing-equals-reference-map-step%d" % step, matches(listing(ds), ref)))
            tab = be.table_rows(ds)
            obl.append(("no-orphan-event-rows-step%d" % step, "<orphans>" not in tab and set(k for k in tab) <= set(ref)))
        return obl, trace
    finally:
        be.close()


def harnesses(tier):
    ST.install_common()
    ST.install_sqlite()
    hs = []
    ST.install_peewee()
    for bk in ["memory", "sqlite", "peewee"]:
        for L in ([2, 3] if tier == "quick" else [2, 3, 4]):
            hs.append((Harness(PROP, "%s-history-L%d" % (bk, L), h_history, dict(bk=bk, L=L), "%s: every history of %d lifecycle operations over two bucket ids (operation, target, metadata variant, update mask chosen by forking; event content symbolic)" % (bk, L), split_depth=8), 3600))
    return hs


def meta(chk, tier):
    chk.functions = C.source_files("aw_datastore/datastore.py", "aw_datastore/storages/memory.py", "aw_datastore/storages/sqlite.py")
    chk.functions.append(dict(functions=["Datastore.__getitem__/create_bucket/update_bucket/delete_bucket/buckets", "Bucket.metadata", "storage create/update/delete_bucket, get_metadata, buckets"]))
    chk.bounds = [
        "histories of L <= %d operations from %s over two bucket ids (one with unicode and quotes), 2 metadata variants (with / without name and data), 2 creation instants (one with a +05:30 offset), 5 update masks" % (3 if tier == "quick" else 4, OPS),
        "event content symbolic (instant, duration, tag)",
    ]
    chk.stubs = ["as C02"]
    chk.assumptions = ["outside the property's quantifier and assumed away: create_bucket on an existing id, updates that supply no field, empty-string fields, data={} updates",
                       "the value space is small and mostly structural: the solver's contribution is the symbolic event content; the rest is exhaustive bounded exploration of the selectors", "returned metadata and passed-in data objects are scribbled over at every depth after each describe / create / update"]


def main(tier, seed, args):
    return C.run_check(sys.modules[__name__], tier, seed, args)
