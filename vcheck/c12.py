"""C12 — queries only read: bucket data is unchanged and scoped to the query window."""
import sys

import iso8601

from symex import shadows as S
from symex import sstr
from symex.shadows import And, Or, Not, If, Sum
from . import common as C
from .common import Harness
from . import store as ST
from . import c08, c10, c16
from .store import Row, same_rows_as_sets, same_rows_in_order, row_of_event

import aw_core.models as M
import aw_query.query2 as Q2
import aw_query.functions as QF
from aw_query.exceptions import QueryException

PROP = "C12"
U_MAX = ST.T_MAX_MS * 1000
BID_B = 'b-ü"2'  # the second bucket's id: non-ASCII and a quote character (escaped inside query texts)
QB = '"b-ü\\"2"'  # the same id as a query string literal
PRE = 'a = query_bucket("A"); b = query_bucket(' + QB + '); '
PROGRAMS = [
    ("query_bucket", 'RETURN = query_bucket("A");'),
    ("eventcount", 'RETURN = query_bucket_eventcount("A");'),
    ("query_bucket", PRE + "x = categorize(a, [[['W'], {'regex': '.'}]]); y = tag(a, [['t', {'regex': '.'}]]); z = period_union(a, b); RETURN = query_bucket(\"A\");"),
    ("eventcount", PRE + 'x = limit_events(a, 0); RETURN = query_bucket_eventcount("A");'),
    ("find_bucket", 'RETURN = query_bucket(find_bucket("b-"));'),
    ("query_bucket-B", "RETURN = query_bucket(" + QB + ");"),
    ("eventcount-B", "x = query_bucket(" + QB + "); RETURN = query_bucket_eventcount(" + QB + ");"),
    ("filter_keyvals", PRE + 'RETURN = filter_keyvals(a, "app", ["a0"]);'),
    ("exclude_keyvals", PRE + 'RETURN = exclude_keyvals(a, "app", ["a0"]);'),
    ("filter_keyvals_regex", PRE + 'RETURN = filter_keyvals_regex(a, "title", "t");'),
    ("filter_period_intersect", PRE + "RETURN = filter_period_intersect(a, b);"),
    ("period_union", PRE + "x = period_union(a, b); RETURN = [x, a, b];"),
    ("limit_events", PRE + "RETURN = limit_events(a, 1);"),
    ("merge_events_by_keys", PRE + 'RETURN = merge_events_by_keys(a, ["app", "title"]);'),
    ("chunk_events_by_key", PRE + 'RETURN = chunk_events_by_key(a, "app");'),
    ("sort_by_timestamp", PRE + "RETURN = sort_by_timestamp(concat(a, b));"),
    ("sort_by_duration", PRE + "RETURN = sort_by_duration(concat(a, b));"),
    ("sum_durations", PRE + "RETURN = sum_durations(a);"),
    ("union_no_overlap", PRE + "RETURN = union_no_overlap(a, b);"),
    ("flood", PRE + "RETURN = flood(a);"),
    ("split_url_events", PRE + "RETURN = split_url_events(a);"),
    ("simplify_window_titles", PRE + 'RETURN = simplify_window_titles(a, "title");'),
    ("categorize", PRE + "RETURN = categorize(a, [[['Work'], {'regex': 't'}], [['Work', 'Sub'], {'regex': 'T', 'ignore_case': true}]]);"),
    ("tag", PRE + "x = tag(a, [['t1', {'regex': 't'}]]); RETURN = [x, a];"),
    ("nop", "RETURN = nop();"),
    # programs that fail midway
    ("err-unknown-function", PRE + "x = categorize(a, [[['W'], {'regex': 't'}]]); RETURN = nosuch(x);"),
    ("err-arity", PRE + "x = split_url_events(a); RETURN = flood(x, 1, 2);"),
    ("err-type", PRE + 'x = tag(a, [["t", {"regex": "t"}]]); RETURN = limit_events(x, "one");'),
    ("err-unknown-bucket", PRE + 'x = period_union(a, b); RETURN = query_bucket("nope");'),
    ("err-parse", PRE + "x = flood(a); RETURN = [1,,;"),
    ("err-no-return", PRE + "x = split_url_events(a);"),
]


def install():
    ST.install_common()
    ST.install_sqlite()
    ST.install_peewee()
    c08.install()
    c10.install()
    c16.install()
    C.stub(iso8601, "parse_date", sstr.sym_parse_date(iso8601.parse_date, iso8601.ParseError))


def concrete_data(i, bid):
    if bid == "A" and i == 1:
        return {}  # an event without any data: nothing nested to copy — still must not be shared
    return {"title": "T%s%d" % (bid, i), "app": "a%d" % (i % 2), "url": "http://www.ex.org/p%d?q=1#f" % i}


def h_query(x, bk, n, progs, dmax=ST.D_MAX_US):
    A = ST.sym_rows(x, "a", n, dmax=dmax)
    B = ST.sym_rows(x, "b", n, dmax=dmax)
    ST.distinct(x, [r.id for r in A + B])
    be = ST.backend(bk)
    ds = be.make(x, {"A": A, BID_B: B})
    try:
        ws = x.zint("ws", 0, U_MAX)
        we = x.zint("we", 0, U_MAX)
        x.assume(ws <= we)
        start = x.dt_us(ws, x.zint("ws_off", -840, 840), False)
        end = x.dt_us(we, x.zint("we_off", -840, 840), False)
        pi = x.choice("program", len(progs)) if len(progs) > 1 else 0
        name, text = progs[pi]
        before = be.table_rows(ds)
        before_meta = {b: dict(ds[b].metadata()) for b in ("A", BID_B)}
        direct = None
        target = BID_B if name.endswith("-B") else "A"
        kind = name[:-2] if name.endswith("-B") else name
        if kind in ("query_bucket", "eventcount"):
            direct_events = [row_of_event(e) for e in ds[target].get(-1, start, end)]
            direct = direct_events if kind == "query_bucket" else ds[target].get_eventcount(start, end)
        outcome = "value"
        try:
            res = Q2.query("q", text, start, end, ds)
        except QueryException as e:
            outcome = type(e).__name__
            res = None
        except Exception as e:  # noqa — a transform may fail on its arguments; the store must be intact anyway
            outcome = "other:" + type(e).__name__
            res = None
        after = be.table_rows(ds)
        obl = []
        obl.append(("store-rows-unchanged", set(after) == set(before) and And([same_rows_as_sets(after[k], before[k]) for k in before])))
        obl.append(("store-metadata-unchanged", {b: dict(ds[b].metadata()) for b in ("A", BID_B)} == before_meta))
        # a second direct read returns what it returned before
        if kind == "query_bucket":
            obl.append(("query_bucket-equals-direct-windowed-read", outcome == "value" and same_rows_in_order([row_of_event(e) for e in res], direct)))
        if kind == "eventcount":
            obl.append(("query_bucket_eventcount-equals-direct-count", outcome == "value" and C.zv(res) == C.zv(direct)))
            # "the matching count": every event that reaches at least 2 ms into the window is counted, no event
            # further than 2 ms from it is (the edge tolerance of windowed reads, as in C03)
            rows_t = B if target == BID_B else A
            TOL = 2000
            nmust = Sum([If(And(r.end >= ws + TOL, r.start <= we - TOL), 1, 0) for r in rows_t])
            nmay = Sum([If(And(r.end >= ws - TOL, r.start <= we + TOL), 1, 0) for r in rows_t])
            if bk != "peewee" or dmax <= ST.D_MAX_US:
                obl.append(("query_bucket_eventcount-counts-the-events-in-the-window", outcome == "value" and And(C.zv(res) >= nmust, C.zv(res) <= nmay)))
        # (whether and how a program fails is C17's business; here only the store matters)
        return obl, [name, outcome]
    finally:
        be.close()


def h_data(x, bk, progs):
    """same with concrete string data (titles, apps, urls) so that regex / url transforms do real work"""
    A = ST.sym_rows(x, "a", 2)
    B = ST.sym_rows(x, "b", 1)
    ST.distinct(x, [r.id for r in A + B])
    be = ST.backend("memory")
    ds = be.make(x, {"A": [], BID_B: []})
    try:
        from aw_core.models import Event

        for bid, rows in (("A", A), (BID_B, B)):
            ds[bid].insert([C.mk_event(x, r.start, r.dur, concrete_data(i, bid), aligned=False) for i, r in enumerate(rows)])
        ws = x.zint("ws", 0, U_MAX)
        we = x.zint("we", 0, U_MAX)
        x.assume(ws <= we)
        start, end = x.dt_us(ws, 0, False), x.dt_us(we, 0, False)
        pi = x.choice("program", len(progs))
        name, text = progs[pi]

        def dump():
            return {bid: [(C.zv(e.id), S.dt_us(e.timestamp), S.td_us(e.duration), dict(e.data)) for e in ds.storage_strategy.db[bid]] for bid in ("A", BID_B)}

        before = dump()
        outcome = "value"
        try:
            Q2.query("q", text, start, end, ds)
        except QueryException as e:
            outcome = type(e).__name__
        except Exception as e:  # noqa
            outcome = "other:" + type(e).__name__
        after = dump()
        same = all(len(after[b]) == len(before[b]) for b in before)
        conds = []
        if same:
            for b in before:
                for p, q in zip(before[b], after[b]):
                    if p[3] != q[3]:
                        same = False
                    conds.append(And(p[0] == q[0], p[1] == q[1], p[2] == q[2]))
        return [("store-events-and-data-unchanged", And(conds) if same else False)], [name, outcome]
    finally:
        be.close()


def harnesses(tier):
    install()
    hs = []
    core = [p for p in PROGRAMS if p[0] in ("query_bucket", "eventcount", "query_bucket-B", "eventcount-B", "find_bucket", "flood", "categorize", "period_union", "err-unknown-function", "err-unknown-bucket")]
    if tier == "quick":
        spec = [("memory", 1, PROGRAMS, "all"), ("sqlite", 1, core, "core"), ("peewee", 1, core, "core")]
    else:
        spec = [("memory", 1, PROGRAMS, "all"), ("sqlite", 1, PROGRAMS, "all"), ("peewee", 1, PROGRAMS, "all"), ("memory", 2, core, "core"), ("sqlite", 2, core, "core")]
    for bk, n, progs, label in spec:
        hs.append((Harness(PROP, "%s-n%d-%s-programs" % (bk, n, label), h_query, dict(bk=bk, n=n, progs=progs), "%s: %d programs over 2 buckets x %d events, symbolic window" % (bk, len(progs), n), split_depth=5), 7200))
    reads = [p for p in PROGRAMS if p[0] in ("query_bucket", "eventcount", "query_bucket-B", "eventcount-B")]
    for bk in ("memory", "sqlite"):
        hs.append((Harness(PROP, "%s-n1-long-events-read-programs" % bk, h_query, dict(bk=bk, n=1, progs=reads, dmax=30 * ST.D_MAX_US), "%s: the reading programs over events lasting up to 30 days" % bk, split_depth=5), 3600))
    hs.append((Harness(PROP, "memory-stringdata-all-programs", h_data, dict(bk="memory", progs=PROGRAMS), "memory backend with concrete string data so regex / url / title transforms mutate what they are given", split_depth=5), 7200))
    return hs


def meta(chk, tier):
    chk.functions = C.source_files("aw_query/functions.py", "aw_query/query2.py", "aw_datastore/datastore.py", "aw_datastore/storages/memory.py", "aw_datastore/storages/sqlite.py")
    chk.functions.append(dict(functions=["aw_query.query2.query", "q2_query_bucket", "q2_query_bucket_eventcount", "q2_find_bucket", "all q2_* built-ins and the transforms behind them", "Bucket.get / get_eventcount"]))
    chk.bounds = [
        "%d query programs: each registered built-in at least once (incl. the in-place ones: categorize, tag, split_url_events, period_union) and 6 programs that raise midway" % len(PROGRAMS),
        "store: two buckets x %s events with symbolic instants / durations; query window start <= end, any microsecond, each edge with its own symbolic UTC offset" % ("1" if tier == "quick" else "1..2"),
    ]
    chk.stubs = ["as C02, C08, C10, C16; STARTTIME / ENDTIME travel as the opaque ISO text of the symbolic datetime and iso8601.parse_date returns it (contract)"]
    chk.assumptions = ["the second bucket's id contains a non-ASCII character and a quote", "events of up to 30 days for the reading programs on memory and sqlite", "program texts are concrete here (C11 / C17 make the text symbolic)", "peewee: core programs (quick) / all programs (thorough) with one event per bucket"]


def main(tier, seed, args):
    return C.run_check(sys.modules[__name__], tier, seed, args)
